#!/usr/bin/env python3
"""Prepares scratch worktrees for a round of seeded breaking changes by independent sub-agents.
usage: tools/prep_seed_round.py <round-number> C01 C06 ...
Creates /tmp/seed<N>-<ID>/ (a detached worktree of /repo HEAD) holding PROPERTY.txt (the property's text
only) and TASK.txt (the brief, with the mechanisms of earlier kept changes listed so they are not
repeated). Nothing from /verif's checks goes into the worktree."""
import json, os, re, subprocess, sys
ROOT = os.path.dirname(os.path.dirname(os.path.abspath(__file__)))
n = sys.argv[1]
props = {}
for l in open(os.path.join(ROOT, "properties.jsonl")):
    d = json.loads(l)
    props[d["id"]] = d
tmpl = open(os.path.join(ROOT, "tools", "seed_task_template.txt")).read()
for pid in sys.argv[2:]:
    wt = "/tmp/seed%s-%s" % (n, pid)
    subprocess.run(["git", "-C", "/repo", "worktree", "add", "--detach", wt, "HEAD"], stdout=subprocess.DEVNULL, stderr=subprocess.DEVNULL, check=True)
    p = props[pid]
    open(wt + "/PROPERTY.txt", "w").write("%s: %s\n\nSTATEMENT: %s\n\nQUANTIFIER (which inputs count): %s\n\nWHY EXISTING TESTS CANNOT SETTLE IT: %s\n\nANCHORS: %s\n" % (pid, p["title"], p["statement"], p["quantifier"]["text"], p["why_tests_cant"], json.dumps(p["anchors"])))
    earlier = []
    for k in range(1, int(n)):
        d = os.path.join(ROOT, "seeded", "%s-%d" % (pid, k))
        if not os.path.isdir(d):
            continue
        m = json.load(open(d + "/meta.json"))
        txt = re.sub(r"\s+", " ", m["needs_to_manifest"])[:320]
        earlier.append("- #%d (files: %s): %s ..." % (k, ", ".join(m.get("files_changed", [])), txt))
    open(wt + "/TASK.txt", "w").write(tmpl.replace("@WT@", wt).replace("@EARLIER@", "\n".join(earlier)))
    print("prepared", wt)
