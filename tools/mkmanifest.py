#!/usr/bin/env python3
"""Regenerates /verif/MANIFEST.json from props.json (single source of truth for per-property metadata)."""
import json, os
ROOT = os.path.dirname(os.path.dirname(os.path.abspath(__file__)))
conf = json.load(open(os.path.join(ROOT, "props.json")))
allp = [json.loads(l)["id"] for l in open(os.path.join(ROOT, "properties.jsonl")) if l.strip()]
checks = []
for pid in sorted(conf["properties"]):
    c = conf["properties"][pid]
    if c.get("disabled"):
        continue
    checks.append({
        "property_id": pid,
        "quick_cmd": "./check quick %s" % pid,
        "thorough_cmd": "./check thorough %s" % pid,
        "evidence_file": "/verif/evidence/%s.json" % pid,
        "replay_cmd_template": "./check replay %s {path}" % pid,
        "engine": "rapid-harness",
        "level_claimed": {"category": "exploration", "text": c["level_text"], "design_ref": c.get("design_ref", "DESIGN.md §3 " + pid)},
        "level_note": c["level_note"],
        "technique": c["technique"],
    })
claimed = {c["property_id"] for c in checks}
na = []
for pid in allp:
    if pid not in claimed:
        reason = conf.get("not_applicable", {}).get(pid, "check not built yet in this round; no claim is made")
        na.append({"property_id": pid, "reason": reason})
m = {
    "version": 1,
    "setup_cmd": "./check setup",
    "hooks": {
        "guard": "verif",
        "enable": "go test -tags verif (the harness module /verif/harness replaces github.com/buildkite/go-pipeline with /repo; no hook code is needed - every observation goes through the public API)",
        "baseline_off_cmd": "cd /repo && GOFLAGS=-mod=mod GOPROXY=off GOSUMDB=off go test -vet=off -count=1 ./...",
        "source_commits": [],
        "add_only": True,
    },
    "engines": [{
        "name": "rapid-harness", "path": "/verif/harness",
        "serves_properties": sorted(claimed),
        "kind_free_text": "Go module with one test package per property: pgregory.net/rapid v1.3.0 properties and state machines, exhaustive enumerators, native go fuzz targets (thorough tier), driven by the python3 script /verif/check",
    }],
    "checks": checks,
    "not_applicable": na,
    "notes": conf.get("notes", ""),
}
json.dump(m, open(os.path.join(ROOT, "MANIFEST.json"), "w"), indent=1, ensure_ascii=False)
print("claimed:", len(checks), "not claimed:", len(na))
