#!/usr/bin/env python3
"""Generates /verif/mutants/<name>.patch from the edit list below (against /repo HEAD), checking that
each mutant compiles and passes the repository's own test suite. Hand-written sensitivity mutants
(DESIGN §5); the seeded changes written by independent sub-agents live in /verif/seeded/ instead.

usage: tools/mkmutants.py [name ...]     (no names: all)
"""
import json, os, subprocess, sys, shutil

ROOT = os.path.dirname(os.path.dirname(os.path.abspath(__file__)))
WT = "/tmp/verif-mutant-wt"
ENV = dict(os.environ, GOFLAGS="-mod=mod", GOPROXY="off", GOSUMDB="off", GOTOOLCHAIN="local")

# (name, properties expected to catch it, [(file, old, new), ...])
M = []
def mut(name, props, *edits):
    M.append((name, props, edits))

# ---- reverts of the fix commits are generated from git (see REVERTS below)
# ---- C01
# (two candidates were dropped as behaviour-equivalent for Verify: removing the mandatory-field check and
#  ignoring step-env shadowing in Verify both still end in a payload mismatch, so verification fails anyway)
mut("c01-matrix-constant", ["C01", "C14"], ("signature/pipeline_invariants.go",
 "			out[\"matrix\"] = EmptyToNilPtr(c.Matrix)", "			out[\"matrix\"] = (*pipeline.Matrix)(nil)"),
 ("signature/pipeline_invariants.go", "		\"matrix\":         EmptyToNilPtr(c.Matrix),", "		\"matrix\":         (*pipeline.Matrix)(nil),"))
mut("c01-requirekeys-skips-missing", ["C01"], ("signature/sign.go",
 "		if !ok {\n			return nil, fmt.Errorf(\"missing key %v\", k)\n		}", "		if !ok {\n			continue\n		}"))
mut("c01-payload-drops-alg", ["C01", "C14"], ("signature/sign.go",
 "		Algorithm: alg,\n		Values:    values,", "		Algorithm: \"\",\n		Values:    values,"))
mut("c01-plugin-config-ignored", ["C01", "C14"], ("plugin.go",
 "	return map[string]any{\n		p.FullSource(): cfg,\n	}, nil", "	if m, ok := cfg.(map[string]any); ok && len(m) > 1 {\n		cfg = len(m)\n	}\n	return map[string]any{\n		p.FullSource(): cfg,\n	}, nil"))

# ---- C05
mut("c05-delete-keeps-index", ["C05"], ("ordered/map.go",
 "	m.items[idx].deleted = true\n	delete(m.index, k)\n\n	// If half", "	m.items[idx].deleted = true\n	if len(m.items) > 3 {\n		delete(m.index, k)\n	}\n\n	// If half"))
mut("c05-compact-stale-index", ["C05"], ("ordered/map.go",
 "		m.index[p.Key] = len(pairs)\n", "		if len(pairs) < 64 {\n			m.index[p.Key] = len(pairs)\n		}\n"))
mut("c05-replace-keeps-colliding", ["C05", "C10"], ("ordered/map.go",
 "		if newidx, exists := m.index[new]; exists {\n			m.items[newidx].deleted = true\n		}", "		if newidx, exists := m.index[new]; exists && newidx > idx {\n			m.items[newidx].deleted = true\n		}"))
mut("c05-equal-ignores-last-value", ["C05"], ("ordered/map.go",
 "		if !cmp.Equal(a.items[i].Value, b.items[j].Value,", "		if i+1 < len(a.items) && !cmp.Equal(a.items[i].Value, b.items[j].Value,"))
mut("c05-tomap-skips-after-tombstone", ["C05"], ("ordered/map.go",
 "	um := make(map[K]V, len(m.index))\n	m.Range(func(k K, v V) error {\n		um[k] = v\n		return nil\n	})\n	return um",
 "	um := make(map[K]V, len(m.index))\n	for _, p := range m.items {\n		if p.deleted {\n			if len(m.items) > 5 {\n				break\n			}\n			continue\n		}\n		um[p.Key] = p.Value\n	}\n	return um"))

# ---- C06
mut("c06-no-recursion-deep", ["C06"], ("signature/steps.go",
 "			if err := SignSteps(ctx, step.Steps, key, repoURL, opts...); err != nil {", "			if len(step.Steps) > 3 {\n				continue\n			}\n			if err := SignSteps(ctx, step.Steps, key, repoURL, opts...); err != nil {"))
mut("c06-unknown-after-first-ignored", ["C06"], ("signature/steps.go",
 "	for _, step := range s {\n		switch step := step.(type) {", "	for i, step := range s {\n		if _, unk := step.(*pipeline.UnknownStep); unk && i > 1 {\n			continue\n		}\n		switch step := step.(type) {"))
mut("c06-fields-not-sorted", ["C06"], ("signature/sign.go",
 "	sort.Strings(fields)\n", "	if len(fields) < 7 {\n		sort.Strings(fields)\n	}\n"))

# ---- C10
mut("c10-writeback-ignores-prefer", ["C10"], ("pipeline.go",
 "		if _, exists := interpolationEnv.Get(intk); !(preferRuntimeEnv && exists) {", "		if _, exists := interpolationEnv.Get(intk); !(preferRuntimeEnv && exists && intv != \"\") {"))
mut("c10-exists-uses-unexpanded-name", ["C10"], ("pipeline.go",
 "		if _, exists := interpolationEnv.Get(intk); !(preferRuntimeEnv && exists) {", "		if _, exists := interpolationEnv.Get(k); !(preferRuntimeEnv && exists) {"))
mut("c10-block-not-rewritten-on-rename", ["C10"], ("pipeline.go",
 "		p.Env.Replace(k, intk, intv)\n", "		if k == intk {\n			p.Env.Replace(k, intk, intv)\n		} else {\n			p.Env.Set(intk, intv)\n		}\n"))

# ---- C11
mut("c11-adjustment-dimension-names-unchecked", ["C11"], ("step_command_matrix.go",
 "		for dim := range adj.With {\n			// An empty but non-nil setup dimension is valid (all values may be\n			// given by adjustment tuples).\n			if m.Setup[dim] == nil {", "		for dim := range adj.With {\n			// An empty but non-nil setup dimension is valid (all values may be\n			// given by adjustment tuples).\n			if m.Setup[dim] == nil && len(m.Setup) < 2 {"))
mut("c11-bail-early-on-match", ["C11"], ("step_command_matrix.go",
 "		// If multiple adjustments have the same permutation, and any of them\n		// have \"skip: true\", then that applies, so we can't bail early.\n		valid = true", "		return nil"))
mut("c11-string-false-not-truthy", ["C11"], ("step_command_matrix.go",
 "	default:\n		return true\n	}\n}\n\n// MarshalJSON is needed to use inlineFriendlyMarshalJSON.\nfunc (ma *MatrixAdjustment)", "	case string:\n		return s != \"false\"\n\n	default:\n		return true\n	}\n}\n\n// MarshalJSON is needed to use inlineFriendlyMarshalJSON.\nfunc (ma *MatrixAdjustment)"))
mut("c11-adjustment-arity-unchecked", ["C11"], ("step_command_matrix.go",
 "		if len(adj.With) != len(m.Setup) {", "		if len(adj.With) > len(m.Setup) {"))

# ---- C12
mut("c12-env-names-interpolated", ["C12"], ("step_command.go",
 "		if err := interpolateMapValues(tf, c.Env); err != nil {", "		if err := interpolateMap(tf, c.Env); err != nil {"))
mut("c12-key-interpolated", ["C12"], ("step_command.go",
 "	if err := interpolateSlice(tf, c.Plugins); err != nil {\n		return fmt.Errorf(\"interpolating plugins: %w\", err)\n	}\n",
 "	if err := interpolateSlice(tf, c.Plugins); err != nil {\n		return fmt.Errorf(\"interpolating plugins: %w\", err)\n	}\n	if _, isMatrix := tf.(matrixInterpolator); isMatrix {\n		if err := interpolateString(tf, &c.Key); err != nil {\n			return err\n		}\n	}\n"))
mut("c12-regexp-loses-leading-ws", ["C12"], ("interpolate_matrix.go",
 "`\\{\\{\\s*matrix(\\.[\\w-\\.]+)?\\s*\\}\\}`", "`\\{\\{[ \\t]*matrix(\\.[\\w-\\.]+)?\\s*\\}\\}`"))
mut("c12-unknown-dim-silent-in-config", ["C12"], ("plugin.go",
 "	cfg, err := interpolateAny(tf, p.Config)\n	if err != nil {\n		return err\n	}", "	cfg, err := interpolateAny(tf, p.Config)\n	if err != nil {\n		if _, isEnv := tf.(envInterpolator); isEnv {\n			return err\n		}\n	}"))

# ---- C15
mut("c15-wait-before-plugins", ["C15"], ("steps.go",
 "	case o.Contains(\"command\") || o.Contains(\"commands\") || o.Contains(\"plugins\"):", "	case o.Contains(\"command\") || o.Contains(\"commands\") || (o.Contains(\"plugins\") && !o.Contains(\"wait\")):"))
mut("c15-script-removed", ["C15"], ("steps.go",
 "	case \"command\", \"script\":", "	case \"command\":"))
mut("c15-manual-scalar-to-wait", ["C15"], ("step_scalar.go",
 "	case \"wait\", \"waiter\":\n		return &WaitStep{Scalar: s}, nil\n\n	case \"block\", \"input\", \"manual\":", "	case \"wait\", \"waiter\", \"manual\":\n		return &WaitStep{Scalar: s}, nil\n\n	case \"block\", \"input\":"))
mut("c15-group-before-trigger", ["C15"], ("steps.go",
 "	case o.Contains(\"trigger\"):\n		return new(TriggerStep), nil\n\n	case o.Contains(\"group\"):\n		return new(GroupStep), nil",
 "	case o.Contains(\"group\"):\n		return new(GroupStep), nil\n\n	case o.Contains(\"trigger\"):\n		return new(TriggerStep), nil"))

# ---- C16
mut("c16-alias-recorded-under-primary", ["C16", "C03"], ("ordered/unmarshal.go",
 "				if has {\n					key = alias\n					break\n				}", "				if has {\n					break\n				}"))
mut("c16-dash-fields-decoded", ["C16"], ("ordered/unmarshal.go",
 "		case \"-\":\n			// Note: if a field is skipped with \"-\", yaml.v3 still puts it into\n			// inline.\n			continue\n", "		case \"-\":\n			tag = \"\"\n"))
mut("c16-later-alias-preferred", ["C16", "C03"], ("ordered/unmarshal.go",
 "				if has {\n					key = alias\n					break\n				}", "				if has {\n					key = alias\n				}"))
mut("c16-leftover-drops-last", ["C16", "C03"], ("ordered/unmarshal.go",
 "		if _, outline := outlineKeys[k]; outline {\n			return nil\n		}\n		temp.Set(k, v)", "		if _, outline := outlineKeys[k]; outline {\n			return nil\n		}\n		if temp.Len() >= 11 {\n			return nil\n		}\n		temp.Set(k, v)"))

# ---- C17
mut("c17-fragment-dropped-for-org", ["C17", "C03"], ("plugin.go",
 "		return path.Join(\"github.com\", paths[0], lastSegment(paths[1], u.Fragment))", "		return path.Join(\"github.com\", paths[0], lastSegment(paths[1], strings.TrimSuffix(u.Fragment, \"/x\")))"),)
mut("c17-dotted-org-is-host", ["C17"], ("plugin.go",
 "	case 2:\n		// trimmed path contained one slash\n", "	case 2:\n		// trimmed path contained one slash\n		if strings.Contains(paths[0], \".\") {\n			return p.Source\n		}\n"))
mut("c17-three-segments-expanded", ["C17"], ("plugin.go",
 "	default:\n		// trimmed path contained more than one slash - apply no smarts\n		return p.Source", "	default:\n		// trimmed path contained more than one slash - apply no smarts\n		if len(paths) == 3 && !strings.Contains(paths[0], \".\") {\n			return path.Join(\"github.com\", paths[1], lastSegment(paths[2], u.Fragment))\n		}\n		return p.Source"))

# ---- C18
mut("c18-rs512-allowed", ["C18"], ("jwkutil/validate.go",
 "		jwa.RSA: {jwa.PS512},", "		jwa.RSA: {jwa.PS512, jwa.RS512},"), ("jwkutil/validate.go", "	ValidRSAAlgorithms = []jwa.SignatureAlgorithm{jwa.PS512}", "	ValidRSAAlgorithms = []jwa.SignatureAlgorithm{jwa.PS512, jwa.RS512}"))
mut("c18-missing-alg-tolerated-for-okp", ["C18"], ("jwkutil/validate.go",
 "	if _, ok := key.Get(jwk.AlgorithmKey); !ok {\n		return ErrKeyMissingAlg\n	}", "	if _, ok := key.Get(jwk.AlgorithmKey); !ok {\n		if key.KeyType() == jwa.OKP {\n			return nil\n		}\n		return ErrKeyMissingAlg\n	}"))
mut("c18-loadkey-first-when-absent", ["C18"], ("jwkutil/load_key.go",
 "	key, found := jwks.LookupKeyID(keyID)\n	if !found {", "	key, found := jwks.LookupKeyID(keyID)\n	if !found && jwks.Len() == 1 {\n		key, found = jwks.Key(0)\n	}\n	if !found {"))
mut("c18-keytype-check-by-alg-only", ["C18"], ("jwkutil/validate.go",
 "	if !slices.Contains(ValidAlgsForKeyType[key.KeyType()], signingAlg) {", "	if key.KeyType() != jwa.EC && !slices.Contains(ValidAlgsForKeyType[key.KeyType()], signingAlg) {"))


# ---- C02 / C09 / C03 (round trips and normal form)
mut("c02-sign-skips-emptytonil-env", ["C02", "C14", "C01"], ("signature/pipeline_invariants.go",
 "		\"env\":            EmptyToNilMap(c.Env),", "		\"env\":            c.Env,"))
mut("c03-plugin-keeps-empty-config", ["C03"], ("plugin.go",
 "	case map[string]any:\n		if len(x) == 0 {\n			cfg = nil\n		}\n", "	case map[string]any:\n		if len(x) == 0 && p.Source == \"\" {\n			cfg = nil\n		}\n"))
mut("c03-group-name-alias-removed", ["C03"], ("step_group.go",
 "`yaml:\"group\" aliases:\"label,name\"`", "`yaml:\"group\" aliases:\"label\"`"))
mut("c03-cache-size-tag-typo", ["C03", "C09"], ("step_command_cache.go",
 "`yaml:\"size,omitempty\"`", "`yaml:\"sizes,omitempty\"`"))
# (c03-json-inline-wins was dropped: typed fields and the inline map can never share a key after a parse, so swapping the
#  precedence is behaviour-equivalent)
mut("c09-cache-disabled-not-yaml", ["C09"], ("step_command_cache.go",
 "	Disabled bool     `yaml:\",omitempty\"`", "	Disabled bool     `yaml:\"-\"`"))
mut("c09-matrix-adjustment-with-int-retyped", ["C09", "C02"], ("step_command_matrix.go",
 "	if _, has := maw[\"\"]; has && len(maw) == 1 {\n		return maw[\"\"], nil\n	}", "	if v, has := maw[\"\"]; has && len(maw) == 1 {\n		if n, err := strconv.Atoi(v); err == nil {\n			return n, nil\n		}\n		return v, nil\n	}"),
 ("step_command_matrix.go", "import (\n	\"encoding/json\"\n	\"errors\"\n	\"fmt\"\n", "import (\n	\"encoding/json\"\n	\"errors\"\n	\"fmt\"\n	\"strconv\"\n"))

# ---- C04
mut("c04-group-key-skipped", ["C04"], ("step_group.go",
 "	if err := interpolateString(tf, &g.Key); err != nil {\n		return err\n	}\n", ""))
mut("c04-wait-contents-skipped", ["C04"], ("step_wait.go",
 "	return interpolateMap(tf, s.Contents)", "	if s.Scalar != \"\" || len(s.Contents) > 3 {\n		return nil\n	}\n	return interpolateMap(tf, s.Contents)"))
mut("c04-signature-interpolated", ["C04"], ("step_command.go",
 "	// NB: Do not interpolate Signature.\n", "	if c.Signature != nil {\n		if err := interpolateString(tf, &c.Signature.Value); err != nil {\n			return err\n		}\n	}\n"))
mut("c04-string-slices-in-any-skipped", ["C04"], ("interpolate.go",
 "	case []string:\n		err = interpolateSlice(tf, t)\n", "	case []string:\n		if len(t) < 3 {\n			err = interpolateSlice(tf, t)\n		}\n"))
mut("c04-matrix-adjustment-remaining-skipped", ["C04"], ("step_command_matrix.go",
 "	ma.Skip = skip\n	return interpolateMap(tf, ma.RemainingFields)", "	ma.Skip = skip\n	return nil"))

# ---- C07
mut("c07-later-merge-source-wins", ["C07", "C03"], ("ordered/yaml.go",
 "		skipKeys := func(k string, v *yaml.Node) error {\n			if keys[k] {\n				return nil\n			}\n			keys[k] = true\n			return f(k, v)\n		}",
 "		explicit := make(map[string]bool, len(keys))\n		for k := range keys {\n			explicit[k] = true\n		}\n		skipKeys := func(k string, v *yaml.Node) error {\n			if explicit[k] {\n				return nil\n			}\n			keys[k] = true\n			return f(k, v)\n		}"))
mut("c07-explicit-after-merge-loses", ["C07", "C03"], ("ordered/yaml.go",
 "		keys := make(map[string]bool)\n		for i := 0; i < len(n.Content); i += 2 {\n			k := n.Content[i]\n\n			// Ignore merges in this pass.\n			if k.Tag == \"!!merge\" {\n				continue\n			}",
 "		keys := make(map[string]bool)\n		for i := 0; i < len(n.Content); i += 2 {\n			k := n.Content[i]\n\n			// Ignore merges in this pass.\n			if k.Tag == \"!!merge\" {\n				if i > 2 {\n					break\n				}\n				continue\n			}"))
mut("c07-seen-not-unmarked", ["C07", "C13"], ("ordered/yaml.go",
 "	defer delete(seen, n)\n", "	if n.Kind != yaml.ScalarNode {\n		defer delete(seen, n)\n	}\n"))
mut("c07-alias-key-not-followed", ["C07"], ("ordered/yaml.go",
 "	case yaml.AliasNode:\n		return canonicalMapKey(n.Alias)\n", "	case yaml.AliasNode:\n		return n.Alias.Value, nil\n"))
mut("c07-merged-memo-across-siblings", ["C07", "C03"], ("ordered/yaml.go",
 "func rangeYAMLMap(n *yaml.Node, f func(key string, val *yaml.Node) error) error {\n	return rangeYAMLMapImpl(make(map[*yaml.Node]bool), n, f)\n}",
 "var mergedPool = make(map[*yaml.Node]bool)\n\nfunc rangeYAMLMap(n *yaml.Node, f func(key string, val *yaml.Node) error) error {\n	if len(mergedPool) > 64 {\n		mergedPool = make(map[*yaml.Node]bool)\n	}\n	delete(mergedPool, n)\n	return rangeYAMLMapImpl(mergedPool, n, f)\n}"))

# ---- C08
mut("c08-ordered-unmarshal-via-tomap", ["C08", "C03"], ("ordered/unmarshal.go",
 "	var warns []error\n	if err := tsrc.Range(func(k string, v any) error {\n		var dv V", "	var warns []error\n	rangeSrc := tsrc.Range\n	if tsrc.Len() > 8 {\n		um := tsrc.ToMap()\n		rangeSrc = func(f func(string, any) error) error {\n			for k, v := range um {\n				if err := f(k, v); err != nil {\n					return err\n				}\n			}\n			return nil\n		}\n	}\n	if err := rangeSrc(func(k string, v any) error {\n		var dv V"))
mut("c08-legacy-plugins-sorted", ["C08", "C03"], ("plugins.go",
 "	case *ordered.MapSA:\n		// Legacy form:", "	case *ordered.MapSA:\n		if o.Len() > 2 {\n			sorted := ordered.NewMap[string, any](o.Len())\n			um := o.ToMap()\n			ks := make([]string, 0, len(um))\n			for k := range um {\n				ks = append(ks, k)\n			}\n			sort.Strings(ks)\n			for _, k := range ks {\n				sorted.Set(k, um[k])\n			}\n			o = sorted\n		}\n		// Legacy form:"),
 ("plugins.go", "import (\n	\"encoding/json\"\n	\"fmt\"\n", "import (\n	\"encoding/json\"\n	\"fmt\"\n	\"sort\"\n"))
mut("c08-marshaljson-big-maps-by-index", ["C08", "C05"], ("ordered/map.go",
 "	err := m.Range(func(k K, v V) error {\n		if !first {\n			// Separating comma.", "	rng := m.Range\n	if m != nil && len(m.index) > 16 {\n		rng = func(f func(K, V) error) error {\n			for k, i := range m.index {\n				if err := f(k, m.items[i].Value); err != nil {\n					return err\n				}\n			}\n			return nil\n		}\n	}\n	err := rng(func(k K, v V) error {\n		if !first {\n			// Separating comma."))

# ---- C13
mut("c13-fallback-keeps-partial-step", ["C13"], ("steps.go",
 "		step = &UnknownStep{Contents: o}\n		warns = append(warns, warning.Wrapf(err, \"fell back using unknown type of step due to an unmarshaling error\"))", "		if _, isCmd := step.(*CommandStep); !isCmd {\n			step = &UnknownStep{Contents: o}\n		}\n		warns = append(warns, warning.Wrapf(err, \"fell back using unknown type of step due to an unmarshaling error\"))"))
mut("c13-nested-group-steps-nil", ["C13"], ("step_group.go",
 "	if g.Steps == nil {\n		g.Steps = Steps{}\n	}", "	if g.Steps == nil && g.Group != nil {\n		g.Steps = Steps{}\n	}"))
mut("c13-scalar-step-dropped-after-many", ["C13"], ("steps.go",
 "		*s = append(*s, step)\n", "		if _, unk := step.(*UnknownStep); unk && i >= 8 && warning.Is(err) {\n			continue\n		}\n		*s = append(*s, step)\n"))
mut("c13-type-nonstring-panics", ["C13"], ("steps.go",
 "		sTypeStr, ok := sType.(string)\n		if !ok {\n			return nil, fmt.Errorf(\"unmarshaling step: step's `type` key was %T (value %v), want string\", sType, sType)\n		}", "		sTypeStr, ok := sType.(string)\n		if !ok {\n			if l, isList := sType.([]any); isList {\n				sTypeStr = l[0].(string)\n			} else {\n				return nil, fmt.Errorf(\"unmarshaling step: step's `type` key was %T (value %v), want string\", sType, sType)\n			}\n		}"))

# ---- C19
mut("c19-lazy-compaction-in-get", ["C19"], ("ordered/map.go",
 "	idx, ok := m.index[k]\n	if !ok {\n		return zv, false\n	}\n	return m.items[idx].Value, true", "	idx, ok := m.index[k]\n	if !ok {\n		return zv, false\n	}\n	if len(m.items) > len(m.index) {\n		m.compact()\n		idx = m.index[k]\n	}\n	return m.items[idx].Value, true"))
mut("c19-memoised-fullsource", ["C19"], ("plugin.go",
 "type Plugin struct {\n	Source string\n	Config any\n}", "type Plugin struct {\n	Source string\n	Config any\n\n	fullSource, fullSourceOf string\n}"),
 ("plugin.go", "func (p *Plugin) FullSource() string {\n	if p.Source == \"\" {\n		return \"\"\n	}\n", "func (p *Plugin) FullSource() string {\n	if p.fullSourceOf == p.Source && p.fullSource != \"\" {\n		return p.fullSource\n	}\n	fs := p.computeFullSource()\n	p.fullSource, p.fullSourceOf = fs, p.Source\n	return fs\n}\n\nfunc (p *Plugin) computeFullSource() string {\n	if p.Source == \"\" {\n		return \"\"\n	}\n"))
mut("c19-shared-payload-buffer", ["C19", "C14"], ("signature/sign.go",
 "func canonicalPayload(alg string, values map[string]any) ([]byte, error) {\n	rawPayload, err := json.Marshal(struct {", "var payloadScratch bytes.Buffer\n\nfunc canonicalPayload(alg string, values map[string]any) ([]byte, error) {\n	payloadScratch.Reset()\n	err := json.NewEncoder(&payloadScratch).Encode(struct {"),
 ("signature/sign.go", "	if err != nil {\n		return nil, fmt.Errorf(\"marshaling JSON: %w\", err)\n	}\n	payload, err := jcs.Transform(rawPayload)", "	if err != nil {\n		return nil, fmt.Errorf(\"marshaling JSON: %w\", err)\n	}\n	payload, err := jcs.Transform(payloadScratch.Bytes())"),
 ("signature/sign.go", "import (\n	\"context\"", "import (\n	\"bytes\"\n	\"context\""))

# fix commits whose reversal is a mutant: (finding id, commit subject prefix, properties)
REVERTS = [
    ("F1", "fix: ordered.Equal no longer panics", ["C05"]),
    ("F2", "fix: ordered.Map.Replace indexes", ["C05"]),
    ("F3", "fix: ordered.Unmarshal does not treat the empty key", ["C16", "C03"]),
    ("F4", "fix: interpolateMap no longer interpolates renamed keys twice", ["C12", "C04"]),
    ("F5", "fix: env interpolation reaches the cache settings", ["C04"]),
    ("F6", "fix: env interpolation reaches a matrix adjustment", ["C04"]),
    ("F8", "fix: a matrix without setup", ["C09", "C02"]),
    ("F12", "fix: interpolating an ordered map no longer drops", ["C04"]),
    ("F13", "fix: ordered.Unmarshal keeps field warnings", ["C13"]),
    ("F15", "fix: a group step that contains an unknown step", ["C15", "C08"]),
    ("F16", "fix: a matrix without dimensions signs", ["C02"]),
    ("F17", "fix: an adjustment that names no dimension", ["C02", "C09"]),
    ("F19", "fix: a matrix dimension declared without values", ["C02"]),
    ("F20", "fix: fields of an embedded inline struct are filled once", ["C16"]),
]


def run(cmd, cwd=None, check=True, quiet=True):
    p = subprocess.run(cmd, cwd=cwd, env=ENV, stdout=subprocess.PIPE, stderr=subprocess.STDOUT, text=True)
    if check and p.returncode != 0:
        raise SystemExit("command failed: %s\n%s" % (" ".join(cmd), p.stdout[-3000:]))
    return p


def main():
    want = set(sys.argv[1:])
    os.makedirs(os.path.join(ROOT, "mutants"), exist_ok=True)
    if os.path.exists(WT):
        run(["git", "-C", "/repo", "worktree", "remove", "--force", WT], check=False)
        shutil.rmtree(WT, ignore_errors=True)
    run(["git", "-C", "/repo", "worktree", "add", "--detach", WT, "HEAD"])
    index = {}
    idxp = os.path.join(ROOT, "mutants", "INDEX.json")
    if os.path.exists(idxp):
        index = json.load(open(idxp))
    log = run(["git", "-C", "/repo", "log", "--format=%H %s"]).stdout.splitlines()
    for fid, subj, props in REVERTS:
        name = "revert-" + fid
        if want and name not in want:
            continue
        sha = [l.split()[0] for l in log if l.split(" ", 1)[1].startswith(subj)]
        if not sha:
            continue
        d = run(["git", "-C", "/repo", "show", "-R", "--format=", sha[0]]).stdout
        open(os.path.join(ROOT, "mutants", name + ".patch"), "w").write(d)
        index[name] = {"expected_to_be_caught_by": props, "reverts": sha[0][:7]}
        print("ok  %s (reverse of %s)" % (name, sha[0][:7]))
    try:
        for name, props, edits in M:
            if want and name not in want:
                continue
            run(["git", "checkout", "--", "."], cwd=WT)
            ok = True
            for f, old, new in edits:
                p = os.path.join(WT, f)
                s = open(p).read()
                if s.count(old) != 1:
                    print("!! %s: pattern occurs %d times in %s" % (name, s.count(old), f))
                    ok = False
                    break
                open(p, "w").write(s.replace(old, new))
            if not ok:
                continue
            b = run(["go", "build", "./..."], cwd=WT, check=False)
            if b.returncode != 0:
                print("!! %s does not compile:\n%s" % (name, b.stdout[-1500:]))
                continue
            t = run(["go", "test", "-vet=off", "-count=1", "./..."], cwd=WT, check=False)
            if t.returncode != 0:
                print("!! %s fails the repository's own tests (not a valid mutant):\n%s" % (name, t.stdout[-1500:]))
                continue
            d = run(["git", "diff"], cwd=WT).stdout
            open(os.path.join(ROOT, "mutants", name + ".patch"), "w").write(d)
            index[name] = {"expected_to_be_caught_by": props}
            print("ok  %s" % name)
    finally:
        run(["git", "-C", "/repo", "worktree", "remove", "--force", WT], check=False)
        shutil.rmtree(WT, ignore_errors=True)
        subprocess.run(["git", "-C", "/repo", "worktree", "prune"])
    json.dump(index, open(idxp, "w"), indent=1, sort_keys=True)


if __name__ == "__main__":
    main()
