#!/usr/bin/env python3
"""Imports a seeded breaking change written by an independent sub-agent in /tmp/seed-<ID>[-n] after
re-confirming it in a fresh scratch worktree:
  - patch applies to /repo HEAD, compiles, and the repository's own tests pass with it;
  - the demonstration FAILS with the patch and PASSES without it.
Then stores it as /verif/seeded/<name>/{patch.diff, <demo>, meta.json}.

usage: tools/import_seed.py <srcdir> <name> <property>
"""
import json, os, shutil, subprocess, sys

ROOT = os.path.dirname(os.path.dirname(os.path.abspath(__file__)))
ENV = dict(os.environ, GOFLAGS="-mod=mod", GOPROXY="off", GOSUMDB="off", GOTOOLCHAIN="local")


def run(cmd, cwd, check=False):
    p = subprocess.run(cmd, cwd=cwd, env=ENV, stdout=subprocess.PIPE, stderr=subprocess.STDOUT, text=True)
    if check and p.returncode != 0:
        raise SystemExit("failed: %s\n%s" % (" ".join(cmd), p.stdout[-2000:]))
    return p


def main():
    src, name, prop = sys.argv[1], sys.argv[2], sys.argv[3]
    patch = os.path.join(src, "patch.diff")
    demo_rel = open(os.path.join(src, "DEMO_PATH.txt")).read().strip()
    demo_rel = demo_rel.replace(src.rstrip("/") + "/", "")
    demo_src = os.path.join(src, demo_rel)
    expl = open(os.path.join(src, "EXPLANATION.txt")).read()
    wt = "/tmp/verif-import-" + name
    subprocess.run(["git", "-C", "/repo", "worktree", "remove", "--force", wt], stdout=subprocess.DEVNULL, stderr=subprocess.DEVNULL)
    shutil.rmtree(wt, ignore_errors=True)
    run(["git", "-C", "/repo", "worktree", "add", "--detach", wt, "HEAD"], "/", check=True)
    ran = []
    try:
        demo_dst = os.path.join(wt, demo_rel)
        pkg = "./" + os.path.dirname(demo_rel) if os.path.dirname(demo_rel) else "."
        # 1. without the patch the demo passes
        shutil.copy(demo_src, demo_dst)
        p0 = run(["go", "test", "-count=1", "-run", "Seeded", pkg], wt)
        ran.append(("demo without patch", p0.returncode))
        if p0.returncode != 0:
            raise SystemExit("REJECT: demo fails WITHOUT the patch\n" + p0.stdout[-1500:])
        os.remove(demo_dst)
        # 2. patch applies, compiles, existing tests pass
        run(["git", "apply", patch], wt, check=True)
        changed = run(["git", "diff", "--name-only"], wt).stdout.split()
        if any(f.endswith("_test.go") for f in changed):
            raise SystemExit("REJECT: patch touches test files: %s" % changed)
        p1 = run(["go", "build", "./..."], wt)
        if p1.returncode != 0:
            raise SystemExit("REJECT: does not compile\n" + p1.stdout[-1500:])
        p2 = run(["go", "test", "-vet=off", "-count=1", "./..."], wt)
        ran.append(("repo tests with patch", p2.returncode))
        if p2.returncode != 0:
            raise SystemExit("REJECT: repository tests fail with the patch\n" + p2.stdout[-1500:])
        # 3. with the patch the demo fails
        shutil.copy(demo_src, demo_dst)
        p3 = run(["go", "test", "-count=1", "-run", "Seeded", pkg], wt)
        ran.append(("demo with patch", p3.returncode))
        if p3.returncode == 0:
            raise SystemExit("REJECT: demo PASSES with the patch")
        out = os.path.join(ROOT, "seeded", name)
        os.makedirs(out, exist_ok=True)
        shutil.copy(patch, os.path.join(out, "patch.diff"))
        shutil.copy(demo_src, os.path.join(out, os.path.basename(demo_rel)))
        meta = {
            "property": prop,
            "written_by": "independent sub-agent given only the property text and a scratch worktree",
            "demo": {"file": os.path.basename(demo_rel), "place_at": demo_rel, "run": "go test -run Seeded %s" % pkg},
            "needs_to_manifest": expl.strip(),
            "confirmed": [
                "go test -run Seeded %s without the patch: pass" % pkg,
                "git apply patch.diff; go build ./... ; go test ./... (repository suite, unedited): pass",
                "go test -run Seeded %s with the patch: FAIL" % pkg,
            ],
            "files_changed": changed,
        }
        json.dump(meta, open(os.path.join(out, "meta.json"), "w"), indent=1)
        print("imported", name, "->", out, "files:", changed)
    finally:
        subprocess.run(["git", "-C", "/repo", "worktree", "remove", "--force", wt], stdout=subprocess.DEVNULL, stderr=subprocess.DEVNULL)
        shutil.rmtree(wt, ignore_errors=True)
        subprocess.run(["git", "-C", "/repo", "worktree", "prune"])


if __name__ == "__main__":
    main()
