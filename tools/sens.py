#!/usr/bin/env python3
"""Sensitivity runner: applies each mutant / seeded patch to a scratch worktree of /repo and runs the
quick check of the properties expected to catch it (or those given with -p). Prints a table.

usage: tools/sens.py [-p C05,C10] [--seeded] [--all-props] [name ...]
"""
import json, os, re, subprocess, sys, shutil, time, glob

ROOT = os.path.dirname(os.path.dirname(os.path.abspath(__file__)))
ENV = dict(os.environ, GOFLAGS="-mod=mod", GOPROXY="off", GOSUMDB="off", GOTOOLCHAIN="local")


def main():
    args = sys.argv[1:]
    props = None
    seeded = False
    names = []
    scale = os.environ.get("VERIF_SCALE", "100")
    seeds = [os.environ.get("VERIF_SEED", "1")]
    while args:
        a = args.pop(0)
        if a == "-p":
            props = args.pop(0).split(",")
        elif a == "--seeded":
            seeded = True
        elif a == "--seeds":
            seeds = args.pop(0).split(",")
        else:
            names.append(a)
    if seeded:
        items = []
        for d in sorted(glob.glob(os.path.join(ROOT, "seeded", "*"))):
            meta = json.load(open(os.path.join(d, "meta.json")))
            items.append((os.path.basename(d), os.path.join(d, "patch.diff"), meta.get("checked_by") or [meta["property"]]))
    else:
        idx = json.load(open(os.path.join(ROOT, "mutants", "INDEX.json")))
        items = [(n, os.path.join(ROOT, "mutants", n + ".patch"), v["expected_to_be_caught_by"]) for n, v in sorted(idx.items())]
    if names:
        items = [it for it in items if it[0] in names]
    results = {}
    for name, patch, expected in items:
        if not os.path.exists(patch):
            continue
        wt = "/tmp/verif-sens-" + name
        subprocess.run(["git", "-C", "/repo", "worktree", "remove", "--force", wt], stdout=subprocess.DEVNULL, stderr=subprocess.DEVNULL)
        shutil.rmtree(wt, ignore_errors=True)
        subprocess.run(["git", "-C", "/repo", "worktree", "add", "--detach", wt, "HEAD"], check=True, stdout=subprocess.DEVNULL, stderr=subprocess.DEVNULL)
        try:
            ap = subprocess.run(["git", "apply", patch], cwd=wt, stdout=subprocess.PIPE, stderr=subprocess.STDOUT, text=True)
            if ap.returncode != 0:
                print("%-45s patch does not apply: %s" % (name, ap.stdout.strip()[:200]))
                continue
            for pid in (props or expected):
                t0 = time.time()
                verdicts = []
                for sd in seeds:
                    env = dict(ENV, VERIF_REPO=wt, VERIF_SCALE=scale, VERIF_SHRINKTIME="3s", VERIF_SEED=sd)
                    p = subprocess.run([os.path.join(ROOT, "check"), "quick", pid], env=env, stdout=subprocess.PIPE, stderr=subprocess.STDOUT, text=True)
                    v = {0: "MISSED", 1: "caught", 2: "inconclusive"}.get(p.returncode, "rc=%d" % p.returncode)
                    if p.returncode == 1 and "VIOLATION property=" not in p.stdout:
                        v = "driver-error"  # an exception in the driver is not a catch
                        print(p.stdout[-1500:])
                    if v == "inconclusive":
                        print(p.stdout[-1500:])
                    verdicts.append(v)
                # with several seeds a change counts as caught only if every seed catches it
                if all(v == "caught" for v in verdicts):
                    verdict = "caught" if len(seeds) == 1 else "caught %d/%d" % (len(seeds), len(seeds))
                elif len(seeds) == 1:
                    verdict = verdicts[0]
                else:
                    verdict = "FLAKY " + ",".join("%s:%s" % (sd, v) for sd, v in zip(seeds, verdicts))
                results.setdefault(name, {})[pid] = verdict
                print("%-45s %-4s %-12s %.0fs" % (name, pid, verdict, time.time() - t0), flush=True)
        finally:
            subprocess.run(["git", "-C", "/repo", "worktree", "remove", "--force", wt], stdout=subprocess.DEVNULL, stderr=subprocess.DEVNULL)
            shutil.rmtree(wt, ignore_errors=True)
            shutil.rmtree(os.path.join(ROOT, ".run-alt", re.sub(r"\W", "_", wt)), ignore_errors=True)
    subprocess.run(["git", "-C", "/repo", "worktree", "prune"])
    out = os.path.join(ROOT, "mutants", "SEEDED_RESULTS.json" if seeded else "RESULTS.json")
    old = {}
    if os.path.exists(out):
        old = json.load(open(out))
    for name, res in results.items():
        old.setdefault(name, {}).update(res)
    json.dump(old, open(out, "w"), indent=1, sort_keys=True)


if __name__ == "__main__":
    main()
