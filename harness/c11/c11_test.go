// C11 - matrix permutation validation equals the matrix specification.
package c11

import (
	"bytes"
	"encoding/json"
	"fmt"
	"sort"
	"strings"
	"testing"

	pipeline "github.com/buildkite/go-pipeline"
	"gopkg.in/yaml.v3"
	"pgregory.net/rapid"

	"verif/harness/internal/canon"
	"verif/harness/internal/ev"
	"verif/harness/internal/gt"
)

func TestMain(m *testing.M) { ev.Main(m) }

// ---------------------------------------------------------------------------
// case description (JSON-able, so enumerated cases can be replayed)

type adj struct {
	With map[string]string `json:"with"`
	Skip any               `json:"skip"` // nil, false, true, or non-empty string
}

type mcase struct {
	NilMatrix bool                `json:"nil_matrix,omitempty"`
	Setup     map[string][]string `json:"setup"`
	Adjs      []adj               `json:"adjs"`
	Perm      map[string]string   `json:"perm"`
	ViaParse  bool                `json:"via_parse,omitempty"`
	// SharedPool: the dimensions' value lists are windows onto one backing array (pool[:2], pool[2:5],
	// ... as a program that slices one list of targets builds them), the last one with spare capacity:
	// an append through any of them writes into its neighbour
	SharedPool bool `json:"shared_pool,omitempty"`
	// NilPerm: a permutation without entries is handed over as a nil map (what a job without the field,
	// or with `null`, decodes to) instead of an empty one
	NilPerm bool `json:"nil_perm,omitempty"`
	// Second: what happens to the matrix between an accepted call and the second call on the same step
	Second int `json:"second,omitempty"`
}

func truthy(s any) bool {
	switch t := s.(type) {
	case nil:
		return false
	case bool:
		return t
	}
	return true
}

func sameDims(a map[string]string, setup map[string][]string) bool {
	if len(a) != len(setup) {
		return false
	}
	for d := range a {
		if _, ok := setup[d]; !ok {
			return false
		}
	}
	return true
}

// accept is the reference validator, transcribed from the statement.
func accept(c mcase) bool {
	if c.NilMatrix {
		return len(c.Perm) == 0
	}
	// names each matrix dimension once
	if len(c.Perm) != len(c.Setup) {
		return false
	}
	for d := range c.Perm {
		if _, ok := c.Setup[d]; !ok {
			return false
		}
	}
	// a malformed adjustment is rejected
	for _, a := range c.Adjs {
		if !sameDims(a.With, c.Setup) {
			return false
		}
	}
	base := true
	for d, v := range c.Perm {
		found := false
		for _, x := range c.Setup[d] {
			if x == v {
				found = true
			}
		}
		if !found {
			base = false
		}
	}
	matches, skipped := false, false
	for _, a := range c.Adjs {
		eq := true
		for d, v := range c.Perm {
			if a.With[d] != v {
				eq = false
			}
		}
		if eq {
			matches = true
			if truthy(a.Skip) {
				skipped = true
			}
		}
	}
	return (base || matches) && !skipped
}

func buildStep(c mcase) *pipeline.CommandStep {
	step := &pipeline.CommandStep{
		Label:           "label",
		Key:             "k",
		Command:         "run",
		Env:             map[string]string{"V": "v"},
		Plugins:         pipeline.Plugins{{Source: "docker#v1", Config: map[string]any{"image": "img"}}},
		RemainingFields: map[string]any{"agents": map[string]any{"queue": "q"}},
	}
	// tokens only for the permutation's dimensions that also exist in the setup, so a C12-style
	// unknown-token error cannot be confused with a validation error
	var toks []string
	for d := range c.Perm {
		if _, ok := c.Setup[d]; ok || c.NilMatrix {
			if d == "" {
				toks = append(toks, "{{matrix}}")
			} else if isTokenName(d) {
				toks = append(toks, "{{matrix."+d+"}}")
			}
		}
	}
	sort.Strings(toks)
	if !c.NilMatrix && accept(c) {
		t := strings.Join(toks, " ")
		step.Command = "run " + t
		step.Label = "label " + t
		step.Env["V"] = "v" + t
		step.Plugins[0].Config.(map[string]any)["image"] = "img" + t
	}
	if c.NilMatrix {
		return step
	}
	m := &pipeline.Matrix{Setup: pipeline.MatrixSetup{}}
	for d, vs := range c.Setup {
		m.Setup[d] = append([]string{}, vs...)
	}
	if c.SharedPool {
		var ds []string
		for d := range c.Setup {
			ds = append(ds, d)
		}
		sort.Strings(ds)
		pool := make([]string, 0, 16)
		for _, d := range ds {
			pool = append(pool, c.Setup[d]...)
		}
		off := 0
		for _, d := range ds {
			m.Setup[d] = pool[off : off+len(c.Setup[d])]
			off += len(c.Setup[d])
		}
	}
	for _, a := range c.Adjs {
		w := pipeline.MatrixAdjustmentWith{}
		for d, v := range a.With {
			w[d] = v
		}
		m.Adjustments = append(m.Adjustments, &pipeline.MatrixAdjustment{With: w, Skip: a.Skip})
	}
	step.Matrix = m
	return step
}

func isTokenName(d string) bool {
	for _, r := range d {
		if !(r >= 'a' && r <= 'z' || r >= 'A' && r <= 'Z' || r >= '0' && r <= '9' || r == '_' || r == '-' || r == '.') {
			return false
		}
	}
	return d != ""
}

// viaParse rebuilds the step by marshalling to YAML and parsing (so the
// matrix arrives the way an uploaded pipeline delivers it).
func viaParse(step *pipeline.CommandStep) (*pipeline.CommandStep, bool) {
	b, err := yaml.Marshal(&pipeline.Pipeline{Steps: pipeline.Steps{step}})
	if err != nil {
		return nil, false
	}
	p, err := pipeline.Parse(bytes.NewReader(b))
	if err != nil || len(p.Steps) != 1 {
		return nil, false
	}
	cs, ok := p.Steps[0].(*pipeline.CommandStep)
	return cs, ok
}

func check(c mcase) (nontrivial bool, skipped bool, err error) {
	step := buildStep(c)
	if c.ViaParse {
		s2, ok := viaParse(step)
		if !ok {
			return false, true, nil
		}
		// the marshalled form must carry the same matrix, else this route says nothing
		if gt.Diff(canon.Matrix(step.Matrix, canon.Norm), canon.Matrix(s2.Matrix, canon.Norm), gt.Opt{}) != "" {
			return false, true, nil
		}
		step = s2
	}
	before := canon.Step(step, canon.Raw)
	bj, _ := json.Marshal(step)
	perm := pipeline.MatrixPermutation{}
	for d, v := range c.Perm {
		perm[d] = v
	}
	if c.NilPerm && len(c.Perm) == 0 {
		perm = nil
	}
	var got error
	func() {
		defer func() {
			if r := recover(); r != nil {
				got = nil
				err = fmt.Errorf("PANIC: %v", r)
			}
		}()
		got = step.InterpolateMatrixPermutation(perm)
	}()
	if err != nil {
		return false, false, err
	}
	want := accept(c)
	if (got == nil) != want {
		return false, false, fmt.Errorf("InterpolateMatrixPermutation = %v, specification says accept=%v", got, want)
	}
	if !want {
		after := canon.Step(step, canon.Raw)
		if d := gt.Diff(before, after, gt.Opt{}); d != "" {
			return false, false, fmt.Errorf("rejected permutation modified the step: %s", d)
		}
		aj, _ := json.Marshal(step)
		if !bytes.Equal(bj, aj) {
			return false, false, fmt.Errorf("rejected permutation changed the marshalled step:\n%s\n%s", bj, aj)
		}
	}
	if len(perm) != len(c.Perm) && !(c.NilPerm && len(c.Perm) == 0) {
		return false, false, fmt.Errorf("permutation argument was modified")
	}
	// the verdict belongs to the matrix the step has NOW: after an accepted call the same step, asked
	// again about the same permutation, must say no once its matrix forbids it - the matrix gone (a
	// non-empty permutation for a step without a matrix), or an adjustment added that skips the tuple
	if want && len(perm) > 0 && step.Matrix != nil {
		if c.Second == 0 {
			step.Matrix = nil
		} else {
			w := pipeline.MatrixAdjustmentWith{}
			for d, v := range perm {
				w[d] = v
			}
			step.Matrix.Adjustments = append(step.Matrix.Adjustments, &pipeline.MatrixAdjustment{With: w, Skip: "withdrawn"})
		}
		var again error
		func() {
			defer func() {
				if r := recover(); r != nil {
					again = nil
					err = fmt.Errorf("PANIC on the second call: %v", r)
				}
			}()
			again = step.InterpolateMatrixPermutation(perm)
		}()
		if err != nil {
			return false, false, err
		}
		if again == nil {
			return false, false, fmt.Errorf("the permutation was accepted, then the step's matrix changed so that it is no longer allowed (second=%d: 0 = matrix removed, 1 = a skipping adjustment with this tuple added), and the same call on the same step still returns nil", c.Second)
		}
	}
	// non-trivial: adjustment-only permutation, or matched by >= 2 adjustments with different skips, or malformed adjustment present
	if !c.NilMatrix {
		base := len(c.Perm) == len(c.Setup)
		for d, v := range c.Perm {
			f := false
			for _, x := range c.Setup[d] {
				f = f || x == v
			}
			base = base && f
		}
		nmatch, skips := 0, map[bool]bool{}
		malformed := false
		for _, a := range c.Adjs {
			if !sameDims(a.With, c.Setup) {
				malformed = true
				continue
			}
			eq := len(c.Perm) == len(a.With)
			for d, v := range c.Perm {
				if w, ok := a.With[d]; !ok || w != v {
					eq = false
				}
			}
			if eq {
				nmatch++
				skips[truthy(a.Skip)] = true
			}
		}
		nontrivial = (!base && nmatch > 0) || (nmatch >= 2 && len(skips) == 2) || malformed
	}
	return nontrivial, false, nil
}

func classes(c mcase) []string {
	out := []string{fmt.Sprintf("accept=%v", accept(c)), fmt.Sprintf("dims=%d", len(c.Setup)), fmt.Sprintf("adjs=%d", len(c.Adjs))}
	if c.NilMatrix {
		out = append(out, "nil-matrix")
	}
	if c.ViaParse {
		out = append(out, "via-parse")
	}
	if c.SharedPool {
		out = append(out, "value-lists-share-one-backing-array")
	}
	if len(c.Perm) == 0 {
		out = append(out, fmt.Sprintf("no-entries-nil=%v", c.NilPerm))
	}
	for _, l := range c.Setup {
		if len(l) > 16 {
			out = append(out, "large-dimension")
			break
		}
	}
	return out
}

// ---------------------------------------------------------------------------
// random tier

var recRand = ev.New("TestPropValidation", "random matrices (anonymous or <=3 named dimensions, value lists of length 0-3, 0-4 adjustments over setup and new values incl. repeated tuples with conflicting skips and malformed ones, skip in {absent,false,true,string}) x permutations built from base combinations, adjustment tuples, random mixes, wrong arity and unknown dimensions; also nil matrix; struct-built and via yaml.Marshal+Parse; reference validator transcribed from the statement; non-trivial = adjustment-only permutation, or >=2 matching adjustments with different skips, or a malformed adjustment; distinct by hash of the case")

func genCase(t *rapid.T) mcase {
	var c mcase
	if rapid.IntRange(0, 19).Draw(t, "nil") == 0 {
		c.NilMatrix = true
		c.Perm = map[string]string{}
		if rapid.Bool().Draw(t, "nonempty") {
			c.Perm[rapid.SampledFrom([]string{"", "os"}).Draw(t, "d")] = "x"
		}
		return c
	}
	names := [][]string{{""}, {"os"}, {"os", "arch"}, {"os", "arch", "go.ver"}, {}}[rapid.IntRange(0, 4).Draw(t, "dims")]
	vals := []string{"x", "y", "z", "1", "true", ""}
	if rapid.IntRange(0, 3).Draw(t, "numeric") == 0 {
		// values that are different strings and the same number, or differ in case or white space only:
		// matrix values are strings and compared as such
		vals = []string{"1", "01", "1.0", "1.10", "1.1", "10", "1e1", "+3", "3", "0x10", "16", "X", "x", "x ", ""}
	}
	if rapid.IntRange(0, 5).Draw(t, "tokenvalues") == 0 {
		// values are arbitrary strings - including ones that look like matrix tokens
		vals = []string{"{{matrix}}", "img-{{matrix.os}}", "{{ matrix.arch }}", "x", "{{matrix.nope}}", "{{", "}}"}
	}
	val := rapid.SampledFrom(vals)
	c.Setup = map[string][]string{}
	for _, d := range names {
		n := rapid.IntRange(0, 3).Draw(t, "nv")
		l := []string{}
		for i := 0; i < n; i++ {
			l = append(l, val.Draw(t, "v"))
		}
		c.Setup[d] = l
	}
	// now and then large dimensions (beyond any small-list threshold), with values that also occur in,
	// or are borrowed from, the other dimensions
	largeDims := len(names) >= 1 && rapid.IntRange(0, 9).Draw(t, "largedims") == 0
	if largeDims {
		for _, d := range names {
			n := rapid.IntRange(17, 40).Draw(t, "nlarge")
			l := make([]string, 0, n)
			for i := 0; i < n; i++ {
				l = append(l, fmt.Sprintf("%s-%d", d, i))
			}
			c.Setup[d] = l
		}
	}
	// (skip reasons may mention matrix tokens, like any string of a step: a REJECTED permutation must
	// still leave them exactly as written)
	skip := rapid.SampledFrom([]any{nil, nil, false, true, "reason", "false", "no {{matrix}} agents yet", "broken on {{matrix.a}} / {{ matrix.b }}", "{{matrix.os}}"})
	na := rapid.IntRange(0, 4).Draw(t, "na")
	many := rapid.IntRange(0, 19).Draw(t, "manyadj") == 0
	if many {
		na = rapid.IntRange(9, 70).Draw(t, "namany")
	}
	// a long list of adjustments each adding a tuple of its own (many more than any backend limit, and
	// past 64): every one of them counts, wherever it stands
	longList := !many && len(names) > 0 && rapid.IntRange(0, 14).Draw(t, "longadjlist") == 0
	if longList {
		for i, n := 0, rapid.IntRange(40, 140).Draw(t, "nfill"); i < n; i++ {
			a := adj{With: map[string]string{}, Skip: rapid.SampledFrom([]any{nil, nil, nil, true}).Draw(t, "fillskip")}
			for _, d := range names {
				a.With[d] = fmt.Sprintf("fill-%d", i)
			}
			c.Adjs = append(c.Adjs, a)
		}
	}
	for i := 0; i < na; i++ {
		a := adj{With: map[string]string{}, Skip: skip.Draw(t, "skip")}
		if len(c.Adjs) > 0 && i > 0 && rapid.IntRange(0, 2).Draw(t, "repeat") == 0 {
			for d, v := range c.Adjs[rapid.IntRange(0, len(c.Adjs)-1).Draw(t, "which")].With {
				a.With[d] = v
			}
		} else {
			for _, d := range names {
				a.With[d] = rapid.SampledFrom(append(vals, "new")).Draw(t, "wv")
			}
			switch rapid.IntRange(0, 11).Draw(t, "malform") {
			case 0:
				if len(names) > 0 {
					delete(a.With, names[0])
				}
			case 1:
				a.With["bogus"] = "x"
			case 2:
				if len(names) > 0 {
					delete(a.With, names[0])
					a.With["bogus"] = "x"
				}
			}
		}
		c.Adjs = append(c.Adjs, a)
	}
	c.Perm = map[string]string{}
	switch rapid.IntRange(0, 7).Draw(t, "permkind") {
	case 7: // right arity, one dimension of an adjustment's (or base) tuple swapped for an unknown one
		src := map[string]string{}
		if len(c.Adjs) > 0 && rapid.Bool().Draw(t, "swapfromadj") {
			for d, v := range c.Adjs[rapid.IntRange(0, len(c.Adjs)-1).Draw(t, "swapadj")].With {
				src[d] = v
			}
		} else {
			for _, d := range names {
				if len(c.Setup[d]) > 0 {
					src[d] = rapid.SampledFrom(c.Setup[d]).Draw(t, "swapv")
				} else {
					src[d] = val.Draw(t, "swapv2")
				}
			}
		}
		ds := make([]string, 0, len(src))
		for d := range src {
			ds = append(ds, d)
		}
		sort.Strings(ds)
		for d, v := range src {
			c.Perm[d] = v
		}
		if len(ds) > 0 {
			gone := ds[rapid.IntRange(0, len(ds)-1).Draw(t, "swapdim")]
			delete(c.Perm, gone)
			// the unknown dimension's value: empty (what a lookup of a missing key yields), the value it
			// replaces, or anything
			c.Perm[rapid.SampledFrom([]string{"unknown", "flavour", gone + "x", ""}).Draw(t, "swapname")] = rapid.SampledFrom([]string{"", "", src[gone], "zz"}).Draw(t, "swapval")
		}
	case 0, 1: // base combination
		for _, d := range names {
			if len(c.Setup[d]) > 0 {
				c.Perm[d] = rapid.SampledFrom(c.Setup[d]).Draw(t, "pv")
			} else {
				c.Perm[d] = val.Draw(t, "pv")
			}
		}
	case 2, 3: // an adjustment's tuple
		if len(c.Adjs) > 0 {
			for d, v := range c.Adjs[rapid.IntRange(0, len(c.Adjs)-1).Draw(t, "adjix")].With {
				c.Perm[d] = v
			}
		} else {
			for _, d := range names {
				c.Perm[d] = val.Draw(t, "pv")
			}
		}
	case 4: // random mix
		for _, d := range names {
			c.Perm[d] = rapid.SampledFrom(append(vals, "new", "fresh")).Draw(t, "pv")
		}
	case 5: // boundary shift: the same characters split differently between two dimensions of an adjustment
		if len(names) >= 2 && len(c.Adjs) > 0 {
			ai := rapid.IntRange(0, len(c.Adjs)-1).Draw(t, "shiftadj")
			if sameDims(c.Adjs[ai].With, c.Setup) {
				ds := append([]string{}, names...)
				sort.Strings(ds)
				i := rapid.IntRange(0, len(ds)-2).Draw(t, "shiftdim")
				sep := rapid.SampledFrom([]string{",", "|", ":", " ", "/", "\x00", "", "=", ";"}).Draw(t, "sep")
				u, v, w := "u", "v", "w"
				c.Adjs[ai].With[ds[i]] = u + sep + v
				c.Adjs[ai].With[ds[i+1]] = w
				for d, x := range c.Adjs[ai].With {
					c.Perm[d] = x
				}
				c.Perm[ds[i]] = u
				c.Perm[ds[i+1]] = v + sep + w
				break
			}
		}
		for _, d := range names {
			c.Perm[d] = val.Draw(t, "pv")
		}
	default: // wrong arity / unknown dimension
		for _, d := range append(append([]string{}, names...), "unknown") {
			if rapid.Bool().Draw(t, "in") {
				c.Perm[d] = val.Draw(t, "pv")
			}
		}
	}
	if largeDims && len(names) >= 2 && rapid.Bool().Draw(t, "borrow") {
		// a value borrowed from another (large) dimension's list
		ds := append([]string{}, names...)
		sort.Strings(ds)
		i := rapid.IntRange(0, len(ds)-1).Draw(t, "borrowdim")
		j := (i + 1 + rapid.IntRange(0, len(ds)-2).Draw(t, "borrowfrom")) % len(ds)
		for _, d := range ds {
			if _, ok := c.Perm[d]; !ok && len(c.Setup[d]) > 0 {
				c.Perm[d] = c.Setup[d][0]
			}
		}
		c.Perm[ds[i]] = rapid.SampledFrom(c.Setup[ds[j]]).Draw(t, "borrowed")
	}
	// occasionally perturb one value
	if len(c.Perm) > 0 && rapid.IntRange(0, 5).Draw(t, "perturb") == 0 {
		ds := make([]string, 0, len(c.Perm))
		for d := range c.Perm {
			ds = append(ds, d)
		}
		sort.Strings(ds)
		c.Perm[rapid.SampledFrom(ds).Draw(t, "pd")] = "fresh"
	}
	c.ViaParse = rapid.IntRange(0, 3).Draw(t, "viaparse") == 0
	c.SharedPool = !c.ViaParse && rapid.IntRange(0, 2).Draw(t, "sharedpool") == 0
	if rapid.IntRange(0, 11).Draw(t, "noperm") == 0 {
		// a candidate that names no dimension at all, as an empty or as a nil map
		c.Perm = map[string]string{}
	}
	c.NilPerm = len(c.Perm) == 0 && rapid.Bool().Draw(t, "nilperm")
	c.Second = rapid.IntRange(0, 1).Draw(t, "second")
	return c
}

func TestPropValidation(t *testing.T) {
	ev.Check(t, 20000, 600000, func(t *rapid.T) {
		c := genCase(t)
		nt, skipped, err := check(c)
		if err != nil {
			j, _ := json.Marshal(c)
			t.Fatalf("%v\ncase: %s", err, j)
		}
		if skipped {
			recRand.Excluded("via-parse route did not reproduce the matrix")
			return
		}
		recRand.Case(ev.Hash(c), nt, classes(c)...)
		recRand.MaybeSample(nt, func() any { return c })
	})
}

// ---------------------------------------------------------------------------
// exhaustive small scope

var recEnum = ev.New("TestExhaustiveSmallScope", "dimension sets {anonymous}, {a}, {a,b}; each value list in {[],[x],[x,y]}; adjustments over values+{z} per dimension x 4 skip kinds plus malformed (missing / extra dimension); quick: <=1 adjustment for two dimensions and <=2 for one; thorough: <=2 everywhere; every permutation over subsets of names+{c} with values in {x,y,z}; non-trivial as in the random tier; distinct by construction")

func TestExhaustiveSmallScope(t *testing.T) {
	var rc mcase
	if ev.ReplayCase(t.Name(), &rc) {
		if _, _, err := check(rc); err != nil {
			t.Fatal(err)
		}
		return
	}
	ev.SkipIfReplayingOther(t)
	lists := [][]string{{}, {"x"}, {"x", "y"}}
	vals3 := []string{"x", "y", "z"}
	skips := []any{nil, false, true, "why"}
	n := 0
	for _, dims := range [][]string{{""}, {"a"}, {"a", "b"}} {
		// all setups
		var setups []map[string][]string
		var recS func(i int, cur map[string][]string)
		recS = func(i int, cur map[string][]string) {
			if i == len(dims) {
				cp := map[string][]string{}
				for k, v := range cur {
					cp[k] = v
				}
				setups = append(setups, cp)
				return
			}
			for _, l := range lists {
				cur[dims[i]] = l
				recS(i+1, cur)
			}
		}
		recS(0, map[string][]string{})
		// all single adjustments
		var withs []map[string]string
		var recW func(i int, cur map[string]string)
		recW = func(i int, cur map[string]string) {
			if i == len(dims) {
				cp := map[string]string{}
				for k, v := range cur {
					cp[k] = v
				}
				withs = append(withs, cp)
				return
			}
			for _, v := range vals3 {
				cur[dims[i]] = v
				recW(i+1, cur)
			}
		}
		recW(0, map[string]string{})
		// malformed: missing first dimension; extra dimension
		miss := map[string]string{}
		for _, d := range dims[1:] {
			miss[d] = "x"
		}
		extra := map[string]string{"c": "x"}
		for _, d := range dims {
			extra[d] = "x"
		}
		withs = append(withs, miss, extra)
		var adjs1 []adj
		for _, w := range withs {
			for _, s := range skips {
				adjs1 = append(adjs1, adj{With: w, Skip: s})
			}
		}
		adjSets := [][]adj{nil}
		for _, a := range adjs1 {
			adjSets = append(adjSets, []adj{a})
		}
		if len(dims) == 1 || ev.Thorough() {
			for _, a := range adjs1 {
				for _, b := range adjs1 {
					adjSets = append(adjSets, []adj{a, b})
				}
			}
		}
		// all permutations over subsets of dims+{c}
		names := append(append([]string{}, dims...), "c")
		var perms []map[string]string
		var recP func(i int, cur map[string]string)
		recP = func(i int, cur map[string]string) {
			if i == len(names) {
				cp := map[string]string{}
				for k, v := range cur {
					cp[k] = v
				}
				perms = append(perms, cp)
				return
			}
			recP(i+1, cur)
			for _, v := range vals3 {
				cur[names[i]] = v
				recP(i+1, cur)
				delete(cur, names[i])
			}
		}
		recP(0, map[string]string{})
		for _, su := range setups {
			for _, as := range adjSets {
				n++
				if n%ev.Shards() != ev.Shard() {
					continue
				}
				for _, p := range perms {
					c := mcase{Setup: su, Adjs: as, Perm: p}
					nt, _, err := check(c)
					if err != nil {
						ev.FailCase(t, c, "%v", err)
					}
					if len(p) == 0 {
						// the candidate without entries, once more as a nil map
						cn := c
						cn.NilPerm = true
						if _, _, err := check(cn); err != nil {
							ev.FailCase(t, cn, "%v", err)
						}
						recEnum.Case(ev.Hash(cn), false, "nil-permutation")
					}
					recEnum.Case(ev.Hash(c), nt, fmt.Sprintf("accept=%v", accept(c)), fmt.Sprintf("dims=%d", len(dims)))
					if nt {
						recEnum.MaybeSample(nt, func() any { return c })
					}
				}
			}
		}
	}
	// nil matrix
	if ev.Shard() == 0 {
		for _, p := range []map[string]string{{}, {"": "x"}, {"a": "x"}} {
			c := mcase{NilMatrix: true, Perm: p}
			if _, _, err := check(c); err != nil {
				ev.FailCase(t, c, "%v", err)
			}
			recEnum.Case(ev.Hash(c), false, "nil-matrix")
		}
	}
	recEnum.Exhaustive()
}
