// C16 - the reflective unmarshaler assigns every input key to exactly one destination.
package c16

import (
	"encoding/json"
	"fmt"
	"reflect"
	"strings"
	"testing"

	"github.com/buildkite/go-pipeline/ordered"
	"gopkg.in/yaml.v3"
	"pgregory.net/rapid"

	"verif/harness/internal/ev"
	"verif/harness/internal/gt"
)

func TestMain(m *testing.M) { ev.Main(m) }

// ---------------------------------------------------------------------------
// target type descriptions ("programs")

type fieldSpec struct {
	Name    string    `json:"name"`
	Kind    string    `json:"kind"` // str int bool float any strs ints anys mss msa struct pstruct structs
	Key     string    `json:"key"`  // primary key; "" = untagged (lower-cased name); "-" = skipped
	Omit    bool      `json:"omit,omitempty"`
	Aliases []string  `json:"aliases,omitempty"`
	Inline  string    `json:"inline,omitempty"` // msa omap any pstruct
	Sub     *typeSpec `json:"sub,omitempty"`
}

type typeSpec struct {
	Fields []fieldSpec `json:"fields"`
	rt     reflect.Type
}

// skipped: the exact tag `yaml:"-"`. (`yaml:"-,omitempty"` is NOT skipped: it names the key "-".)
func (f fieldSpec) skipped() bool { return f.Key == "-" && !f.Omit }

func (f fieldSpec) primary() string {
	if f.Key == "" {
		return strings.ToLower(f.Name)
	}
	return f.Key
}

func (f fieldSpec) tag() reflect.StructTag {
	var parts []string
	switch {
	case f.Inline != "":
		parts = append(parts, `yaml:",inline"`)
	case f.skipped():
		parts = append(parts, `yaml:"-"`)
	case f.Key == "" && !f.Omit:
		// untagged
	case f.Omit:
		parts = append(parts, fmt.Sprintf(`yaml:"%s,omitempty"`, f.Key))
	default:
		parts = append(parts, fmt.Sprintf(`yaml:"%s"`, f.Key))
	}
	if len(f.Aliases) > 0 {
		parts = append(parts, fmt.Sprintf(`aliases:"%s"`, strings.Join(f.Aliases, ",")))
	}
	return reflect.StructTag(strings.Join(parts, " "))
}

var (
	tString = reflect.TypeOf("")
	tInt    = reflect.TypeOf(0)
	tBool   = reflect.TypeOf(false)
	tFloat  = reflect.TypeOf(0.0)
	tAny    = reflect.TypeOf((*any)(nil)).Elem()
	tOMap   = reflect.TypeOf((*ordered.MapSA)(nil))
)

func (ts *typeSpec) build() reflect.Type {
	if ts.rt != nil {
		return ts.rt
	}
	var fs []reflect.StructField
	for _, f := range ts.Fields {
		var t reflect.Type
		switch {
		case f.Inline == "msa":
			t = reflect.MapOf(tString, tAny)
		case f.Inline == "omap":
			t = tOMap
		case f.Inline == "any":
			t = tAny
		case f.Inline == "pstruct":
			t = reflect.PointerTo(f.Sub.build())
		default:
			switch f.Kind {
			case "str":
				t = tString
			case "int":
				t = tInt
			case "bool":
				t = tBool
			case "float":
				t = tFloat
			case "any":
				t = tAny
			case "strs":
				t = reflect.SliceOf(tString)
			case "ints":
				t = reflect.SliceOf(tInt)
			case "anys":
				t = reflect.SliceOf(tAny)
			case "mss":
				t = reflect.MapOf(tString, tString)
			case "msa":
				t = reflect.MapOf(tString, tAny)
			case "struct":
				t = f.Sub.build()
			case "pstruct":
				t = reflect.PointerTo(f.Sub.build())
			case "structs":
				t = reflect.SliceOf(f.Sub.build())
			}
		}
		fs = append(fs, reflect.StructField{Name: f.Name, Type: t, Tag: f.tag()})
	}
	ts.rt = reflect.StructOf(fs)
	return ts.rt
}

var scalarKinds = []string{"str", "int", "bool", "float", "any"}
var allKinds = []string{"str", "str", "int", "bool", "float", "any", "any", "strs", "ints", "anys", "mss", "msa", "struct", "pstruct", "structs"}

type genState struct {
	t       *rapid.T
	nKey    int
	aliases bool
	// mapInlineOnly: every inline field (at any depth) is a map[string]any -
	// the only inline shape for which yaml.v3's own semantics are defined.
	mapInlineOnly bool
	stats         *stats
	// dashKeyUsed: some field of the type is tagged `yaml:"-,omitempty"` (at most one per type)
	dashKeyUsed bool
}

type stats struct {
	kinds     map[string]bool
	aliasHit  int
	leftover  int
	nullVals  int
	inline    string
	dashKeys  int
	aliasFree bool
}

func (g *genState) freshKey(prefix string) string {
	g.nKey++
	return fmt.Sprintf("%s%d", prefix, g.nKey)
}

func (g *genState) genType(depth int, allowInline bool) *typeSpec {
	ts := &typeSpec{}
	n := rapid.IntRange(1, 8).Draw(g.t, "nfields")
	if depth > 0 {
		n = rapid.IntRange(1, 4).Draw(g.t, "nsubfields")
	}
	for i := 0; i < n; i++ {
		g.nKey++
		f := fieldSpec{Name: fmt.Sprintf("F%d", g.nKey)} // globally unique, so untagged keys never clash across an inline struct
		if depth >= 2 {
			f.Kind = rapid.SampledFrom(scalarKinds).Draw(g.t, "skind")
		} else {
			f.Kind = rapid.SampledFrom(allKinds).Draw(g.t, "kind")
		}
		g.stats.kinds[f.Kind] = true
		switch rapid.IntRange(0, 9).Draw(g.t, "tagkind") {
		case 0:
			f.Key = "" // untagged
		case 1:
			f.Key = "-"
		case 2:
			f.Key = g.freshKey("k")
			f.Omit = true
		case 4:
			if !g.dashKeyUsed && rapid.IntRange(0, 2).Draw(g.t, "dashkey") == 0 {
				// the reserved word as a NAME: `yaml:"-,omitempty"` is the key "-", not a skipped field
				f.Key, f.Omit = "-", true
				g.dashKeyUsed = true
			} else {
				f.Key = g.freshKey("k")
			}
		case 3:
			f.Key = "" // flags only (`yaml:",omitempty"`): the key is still the lower-cased field name
			f.Omit = true
		default:
			f.Key = g.freshKey("k")
		}
		if g.aliases && !f.skipped() && rapid.IntRange(0, 2).Draw(g.t, "hasalias") == 0 {
			for j, k := 0, rapid.IntRange(1, 3).Draw(g.t, "nalias"); j < k; j++ {
				f.Aliases = append(f.Aliases, g.freshKey("al"))
			}
		}
		if f.Kind == "struct" || f.Kind == "pstruct" || f.Kind == "structs" {
			f.Sub = g.genType(depth+1, true)
		}
		ts.Fields = append(ts.Fields, f)
	}
	if allowInline && rapid.IntRange(0, 3).Draw(g.t, "hasinline") > 0 {
		g.nKey++
		f := fieldSpec{Name: fmt.Sprintf("Rest%d", g.nKey)}
		kinds := []string{"msa", "msa", "omap", "any"}
		if depth == 0 {
			kinds = append(kinds, "pstruct")
		}
		f.Inline = rapid.SampledFrom(kinds).Draw(g.t, "inlinekind")
		if g.mapInlineOnly {
			f.Inline = "msa"
		}
		if f.Inline == "pstruct" {
			f.Sub = g.genType(depth+1, rapid.Bool().Draw(g.t, "inlinesubinline"))
		}
		if depth == 0 {
			g.stats.inline = f.Inline
		}
		// the inline field can sit anywhere among the fields
		at := rapid.IntRange(0, len(ts.Fields)).Draw(g.t, "inlineat")
		ts.Fields = append(ts.Fields[:at:at], append([]fieldSpec{f}, ts.Fields[at:]...)...)
	}
	return ts
}

// ---------------------------------------------------------------------------
// documents: gt trees, converted to the source types ordered.DecodeYAML yields

type pairs struct {
	keys []string
	vals []*gt.Node
}

var sentinel int

func (g *genState) sent() int { sentinel++; return 1000 + sentinel }

func (g *genState) anyVal(depth int) *gt.Node {
	switch rapid.IntRange(0, 6).Draw(g.t, "anyk") {
	case 0:
		return gt.IntN(int64(g.sent()))
	case 1:
		return gt.BoolN(rapid.Bool().Draw(g.t, "b"))
	case 2:
		return gt.FloatN(float64(g.sent()) + 0.5)
	case 3:
		if depth < 2 {
			s := gt.SeqN()
			for i, n := 0, rapid.IntRange(0, 2).Draw(g.t, "n"); i < n; i++ {
				s.Items = append(s.Items, g.anyVal(depth+1))
			}
			return s
		}
	case 4:
		if depth < 2 {
			m := gt.MapN(true)
			for i, n := 0, rapid.IntRange(0, 3).Draw(g.t, "n"); i < n; i++ {
				m.Put(fmt.Sprintf("m%d", g.sent()), g.anyVal(depth+1))
			}
			return m
		}
	case 5:
		if depth == 1 {
			// the value of an unknown key may be null
			return gt.NullN()
		}
	}
	return gt.StrN(fmt.Sprintf("s%d", g.sent()))
}

// valFor generates a well-typed value for a field of the given kind.
// exact=true keeps to the types the YAML library's own decoder also accepts.
func (g *genState) valFor(f fieldSpec, exact bool) *gt.Node {
	if rapid.IntRange(0, 7).Draw(g.t, "null") == 0 {
		g.stats.nullVals++
		return gt.NullN()
	}
	str := func() *gt.Node { return gt.StrN(fmt.Sprintf("s%d", g.sent())) }
	num := func() *gt.Node { return gt.IntN(int64(g.sent())) }
	switch f.Kind {
	case "str":
		if !exact {
			switch rapid.IntRange(0, 5).Draw(g.t, "strsrc") {
			case 0:
				return num()
			case 1:
				return gt.BoolN(true)
			case 2:
				return gt.FloatN(float64(g.sent()) + 0.25)
			}
		}
		return str()
	case "int":
		return num()
	case "bool":
		return gt.BoolN(rapid.Bool().Draw(g.t, "b"))
	case "float":
		return gt.FloatN(float64(g.sent()) + 0.5)
	case "any":
		return g.anyVal(0)
	case "strs":
		if !exact && rapid.IntRange(0, 3).Draw(g.t, "scalar2slice") == 0 {
			return str()
		}
		s := gt.SeqN()
		for i, n := 0, rapid.IntRange(0, 3).Draw(g.t, "n"); i < n; i++ {
			s.Items = append(s.Items, str())
		}
		return s
	case "ints":
		if !exact && rapid.IntRange(0, 3).Draw(g.t, "scalar2slice") == 0 {
			return num()
		}
		s := gt.SeqN()
		for i, n := 0, rapid.IntRange(0, 3).Draw(g.t, "n"); i < n; i++ {
			s.Items = append(s.Items, num())
		}
		return s
	case "anys":
		s := gt.SeqN()
		for i, n := 0, rapid.IntRange(0, 3).Draw(g.t, "n"); i < n; i++ {
			s.Items = append(s.Items, g.anyVal(1))
		}
		return s
	case "mss":
		m := gt.MapN(true)
		for i, n := 0, rapid.IntRange(0, 3).Draw(g.t, "n"); i < n; i++ {
			m.Put(fmt.Sprintf("e%d", g.sent()), str())
		}
		return m
	case "msa":
		m := gt.MapN(true)
		for i, n := 0, rapid.IntRange(0, 3).Draw(g.t, "n"); i < n; i++ {
			m.Put(fmt.Sprintf("e%d", g.sent()), g.anyVal(1))
		}
		return m
	case "struct", "pstruct":
		return g.docFor(f.Sub, exact)
	case "structs":
		s := gt.SeqN()
		for i, n := 0, rapid.IntRange(0, 2).Draw(g.t, "n"); i < n; i++ {
			s.Items = append(s.Items, g.docFor(f.Sub, exact))
		}
		return s
	}
	return str()
}

// docFor generates a mapping for a struct type: any subset of primaries,
// aliases, names of skipped fields and unknown names (incl. ""), random order.
func (g *genState) docFor(ts *typeSpec, exact bool) *gt.Node {
	type kvp struct {
		k string
		v *gt.Node
	}
	var ps []kvp
	for _, f := range ts.Fields {
		if f.Inline != "" {
			if f.Inline == "pstruct" {
				// keys of the inline struct may appear at this level
				sub := g.docFor(f.Sub, exact)
				for i, k := range sub.Keys {
					ps = append(ps, kvp{k, sub.Vals[i]})
				}
			}
			continue
		}
		if f.skipped() {
			if rapid.IntRange(0, 2).Draw(g.t, "dashkey") == 0 {
				ps = append(ps, kvp{strings.ToLower(f.Name), g.anyVal(1)})
				g.stats.dashKeys++
			}
			continue
		}
		if rapid.Bool().Draw(g.t, "hasprimary") {
			ps = append(ps, kvp{f.primary(), g.valFor(f, exact)})
		}
		for _, a := range f.Aliases {
			if rapid.IntRange(0, 2).Draw(g.t, "hasalias") == 0 {
				ps = append(ps, kvp{a, g.valFor(f, exact)})
			}
		}
	}
	for i, n := 0, rapid.IntRange(0, 3).Draw(g.t, "nunknown"); i < n; i++ {
		k := rapid.SampledFrom([]string{"", "zz", "u1", "u2", "Rest", "rest", "F0", "inline", "-"}).Draw(g.t, "unk")
		if k == "-" && g.dashKeyUsed {
			continue // "-" is the name of a field of this type: not an unknown key (and it must stay well-typed)
		}
		ps = append(ps, kvp{k, g.anyVal(1)})
	}
	m := gt.MapN(true)
	if len(ps) > 1 {
		ps = rapid.Permutation(ps).Draw(g.t, "order")
	}
	for _, p := range ps {
		if !m.Has(p.k) {
			m.Put(p.k, p.v)
		}
	}
	return m
}

// toSrc converts a gt tree into the generic types ordered.DecodeYAML yields.
func toSrc(n *gt.Node) any {
	switch n.Kind {
	case gt.Null:
		return nil
	case gt.Bool:
		return n.B
	case gt.Int:
		return int(n.I)
	case gt.Float:
		return n.F
	case gt.Str:
		return n.S
	case gt.Seq:
		s := make([]any, 0, len(n.Items))
		for _, x := range n.Items {
			s = append(s, toSrc(x))
		}
		return s
	case gt.Map:
		m := ordered.NewMap[string, any](len(n.Keys))
		for i, k := range n.Keys {
			m.Set(k, toSrc(n.Vals[i]))
		}
		return m
	}
	panic("unsupported")
}

// ---------------------------------------------------------------------------
// the reference rule

// applyRule writes into dst (a settable struct value of type ts) what the rule
// says the mapping doc must produce. It returns an error when the model itself
// considers the input ill-typed (generator fault).
func applyRule(ts *typeSpec, doc *gt.Node, dst reflect.Value, st *stats) error {
	consumed := map[string]bool{}
	for i, f := range ts.Fields {
		if f.Inline != "" || f.skipped() {
			continue
		}
		key := f.primary()
		v, has := doc.Get(key)
		if !has {
			for _, a := range f.Aliases {
				if v, has = doc.Get(a); has {
					key = a
					if st != nil {
						st.aliasHit++
					}
					break
				}
			}
		}
		if !has {
			continue // absent: field untouched
		}
		consumed[key] = true
		if err := setValue(f, v, dst.Field(i), st); err != nil {
			return fmt.Errorf("field %s: %w", f.Name, err)
		}
	}
	// leftovers, in order
	left := gt.MapN(true)
	for i, k := range doc.Keys {
		if !consumed[k] {
			left.Put(k, doc.Vals[i])
		}
	}
	if st != nil {
		st.leftover += len(left.Keys)
	}
	for i, f := range ts.Fields {
		if f.Inline == "" {
			continue
		}
		if len(left.Keys) == 0 {
			return nil // nothing left over: the inline field is not touched
		}
		fv := dst.Field(i)
		switch f.Inline {
		case "msa":
			if fv.IsNil() {
				fv.Set(reflect.MakeMap(fv.Type()))
			}
			for j, k := range left.Keys {
				fv.SetMapIndex(reflect.ValueOf(k), anyValue(toSrc(left.Vals[j])))
			}
		case "omap":
			if fv.IsNil() {
				fv.Set(reflect.ValueOf(ordered.NewMap[string, any](len(left.Keys))))
			}
			om := fv.Interface().(*ordered.MapSA)
			for j, k := range left.Keys {
				om.Set(k, toSrc(left.Vals[j]))
			}
		case "any":
			fv.Set(reflect.ValueOf(toSrc(left)))
		case "pstruct":
			if fv.IsNil() {
				fv.Set(reflect.New(fv.Type().Elem()))
			}
			if err := applyRule(f.Sub, left, fv.Elem(), nil); err != nil {
				return err
			}
		}
	}
	return nil
}

func anyValue(v any) reflect.Value {
	if v == nil {
		return reflect.Zero(tAny)
	}
	return reflect.ValueOf(v)
}

func sprint(n *gt.Node) (string, bool) {
	switch n.Kind {
	case gt.Str:
		return n.S, true
	case gt.Int:
		return fmt.Sprint(int(n.I)), true
	case gt.Float:
		return fmt.Sprint(n.F), true
	case gt.Bool:
		return fmt.Sprint(n.B), true
	}
	return "", false
}

func setValue(f fieldSpec, v *gt.Node, fv reflect.Value, st *stats) error {
	if v.Kind == gt.Null {
		fv.Set(reflect.Zero(fv.Type())) // null zeroes
		return nil
	}
	bad := fmt.Errorf("ill-typed %s for kind %s", v.Kind, f.Kind)
	switch f.Kind {
	case "str":
		s, ok := sprint(v)
		if !ok {
			return bad
		}
		fv.SetString(s)
	case "int":
		if v.Kind != gt.Int {
			return bad
		}
		fv.SetInt(v.I)
	case "bool":
		if v.Kind != gt.Bool {
			return bad
		}
		fv.SetBool(v.B)
	case "float":
		if v.Kind != gt.Float {
			return bad
		}
		fv.SetFloat(v.F)
	case "any":
		fv.Set(anyValue(toSrc(v)))
	case "strs":
		if v.Kind == gt.Seq {
			out := reflect.MakeSlice(fv.Type(), 0, len(v.Items))
			if !fv.IsNil() {
				out = fv
			}
			for _, x := range v.Items {
				s, ok := sprint(x)
				if !ok {
					return bad
				}
				out = reflect.Append(out, reflect.ValueOf(s))
			}
			fv.Set(out)
			return nil
		}
		s, ok := sprint(v)
		if !ok {
			return bad
		}
		fv.Set(reflect.Append(fv, reflect.ValueOf(s))) // scalar appended
	case "ints":
		if v.Kind == gt.Seq {
			out := reflect.MakeSlice(fv.Type(), 0, len(v.Items))
			if !fv.IsNil() {
				out = fv
			}
			for _, x := range v.Items {
				if x.Kind != gt.Int {
					return bad
				}
				out = reflect.Append(out, reflect.ValueOf(int(x.I)))
			}
			fv.Set(out)
			return nil
		}
		if v.Kind != gt.Int {
			return bad
		}
		fv.Set(reflect.Append(fv, reflect.ValueOf(int(v.I))))
	case "anys":
		if v.Kind != gt.Seq {
			return bad
		}
		out := fv
		if out.IsNil() {
			out = reflect.MakeSlice(fv.Type(), 0, len(v.Items))
		}
		for _, x := range v.Items {
			out = reflect.Append(out, anyValue(toSrc(x)))
		}
		fv.Set(out)
	case "mss", "msa":
		if v.Kind != gt.Map {
			return bad
		}
		if fv.IsNil() {
			fv.Set(reflect.MakeMap(fv.Type()))
		}
		for i, k := range v.Keys {
			if f.Kind == "mss" {
				s, ok := sprint(v.Vals[i])
				if !ok && v.Vals[i].Kind != gt.Null {
					return bad
				}
				fv.SetMapIndex(reflect.ValueOf(k), reflect.ValueOf(s))
			} else {
				fv.SetMapIndex(reflect.ValueOf(k), anyValue(toSrc(v.Vals[i])))
			}
		}
	case "struct":
		if v.Kind != gt.Map {
			return bad
		}
		return applyRule(f.Sub, v, fv, st)
	case "pstruct":
		if v.Kind != gt.Map {
			return bad
		}
		if fv.IsNil() {
			fv.Set(reflect.New(fv.Type().Elem()))
		}
		return applyRule(f.Sub, v, fv.Elem(), st)
	case "structs":
		if v.Kind != gt.Seq {
			return bad
		}
		out := fv
		if out.IsNil() {
			out = reflect.MakeSlice(fv.Type(), 0, len(v.Items))
		}
		for _, x := range v.Items {
			e := reflect.New(fv.Type().Elem()).Elem()
			if x.Kind == gt.Null {
				// null element: zero value
			} else if x.Kind != gt.Map {
				return bad
			} else if err := applyRule(f.Sub, x, e, st); err != nil {
				return err
			}
			out = reflect.Append(out, e)
		}
		fv.Set(out)
	}
	return nil
}

// prefill sets scalar fields (and pointer-to-struct / nested struct scalars) to
// recognisable non-zero values, identically on both targets. Slices and maps
// are prefilled only when the document does not supply them (see DESIGN C16).
func prefill(ts *typeSpec, v reflect.Value, doc *gt.Node, seed int) {
	for i, f := range ts.Fields {
		fv := v.Field(i)
		supplied := false
		// a typed map that the document supplies as a mapping (possibly the empty one) is filled INTO:
		// the entries it already holds stay, as with the YAML library's decoder
		suppliedMap := false
		if doc != nil && f.Inline == "" && !f.skipped() {
			if x, ok := doc.Get(f.primary()); ok && x.Kind != gt.Null {
				supplied = true
				suppliedMap = x.Kind == gt.Map
			}
			for _, a := range f.Aliases {
				if x, ok := doc.Get(a); ok && x.Kind != gt.Null {
					if !supplied {
						suppliedMap = x.Kind == gt.Map
					}
					supplied = true
				}
			}
		}
		switch {
		case f.Inline == "msa" && doc != nil:
			// a catch-all that was used before: it already holds entries under unknown names that THIS
			// document supplies again (possibly as null) - each is consumed by the catch-all, so the stale
			// value goes. (Only names the document supplies: whether other old entries stay is not stated.)
			for _, k := range []string{"zz", "u1", "u2"} {
				if doc.Has(k) {
					if fv.IsNil() {
						fv.Set(reflect.MakeMap(fv.Type()))
					}
					fv.SetMapIndex(reflect.ValueOf(k), reflect.ValueOf(any("stale")))
				}
			}
		case f.Inline != "":
			// other inline targets start empty
		case f.Kind == "str":
			fv.SetString(fmt.Sprintf("pre%d-%d", seed, i))
		case f.Kind == "int":
			fv.SetInt(int64(-100 - seed - i))
		case f.Kind == "bool":
			fv.SetBool(true)
		case f.Kind == "float":
			fv.SetFloat(-0.5 - float64(i))
		case f.Kind == "any":
			fv.Set(reflect.ValueOf(fmt.Sprintf("preany%d", i)))
		case f.Kind == "strs" && !supplied:
			fv.Set(reflect.ValueOf([]string{"pre"}))
		case f.Kind == "ints" && !supplied:
			fv.Set(reflect.ValueOf([]int{-1}))
		case f.Kind == "mss" && (!supplied || suppliedMap):
			fv.Set(reflect.ValueOf(map[string]string{"pre": "p"}))
		case f.Kind == "structs":
			// a slice that was used before and truncated for re-use (`x.Items = x.Items[:0]`): no elements,
			// spare capacity, and the old elements still sitting in the backing array behind its length -
			// the items a document supplies are new items, built from nothing
			stale := reflect.MakeSlice(fv.Type(), 3, 3)
			for j := 0; j < 3; j++ {
				prefill(f.Sub, stale.Index(j), nil, seed+11+j)
			}
			fv.Set(stale.Slice(0, 0))
		case f.Kind == "struct":
			var sub *gt.Node
			if doc != nil {
				if x, ok := doc.Get(f.primary()); ok && x.Kind == gt.Map {
					sub = x
				}
			}
			prefill(f.Sub, fv, sub, seed+7)
		}
	}
}

// ---------------------------------------------------------------------------
// comparison: reflect.DeepEqual, with ordered maps compared by content

func deepEq(a, b reflect.Value) string {
	if a.Type() != b.Type() {
		return fmt.Sprintf("type %s vs %s", a.Type(), b.Type())
	}
	an, e1 := goToGT(a.Interface())
	bn, e2 := goToGT(b.Interface())
	if e1 != nil || e2 != nil {
		return fmt.Sprintf("unreadable: %v %v", e1, e2)
	}
	return gt.Diff(an, bn, gt.Opt{})
}

// goToGT reads arbitrary (reflect-built) Go values into a gt tree, keeping the
// distinctions that matter: field names, nil vs non-nil pointers, exact scalar
// kinds, ordered map order.
func goToGT(v any) (*gt.Node, error) {
	return rvToGT(reflect.ValueOf(v))
}

func rvToGT(v reflect.Value) (*gt.Node, error) {
	if !v.IsValid() {
		return gt.NullN(), nil
	}
	if om, ok := v.Interface().(*ordered.MapSA); ok {
		if om == nil {
			return gt.NullN(), nil
		}
		out := gt.MapN(true)
		var err error
		om.Range(func(k string, x any) error {
			n, e := rvToGT(reflect.ValueOf(x))
			if e != nil {
				err = e
			}
			out.Keys = append(out.Keys, k)
			out.Vals = append(out.Vals, n)
			return nil
		})
		return out, err
	}
	switch v.Kind() {
	case reflect.Interface, reflect.Pointer:
		if v.IsNil() {
			return gt.NullN(), nil
		}
		return rvToGT(v.Elem())
	case reflect.String:
		return gt.StrN(v.String()), nil
	case reflect.Int:
		return gt.IntN(v.Int()), nil
	case reflect.Bool:
		return gt.BoolN(v.Bool()), nil
	case reflect.Float64:
		// keep floats distinct from ints even when integral
		return gt.MapN(false).Put("$float", gt.FloatN(v.Float())), nil
	case reflect.Slice:
		// nil and empty slices are not distinguished: no statement does
		out := gt.SeqN()
		for i := 0; i < v.Len(); i++ {
			n, err := rvToGT(v.Index(i))
			if err != nil {
				return nil, err
			}
			out.Items = append(out.Items, n)
		}
		return out, nil
	case reflect.Map:
		out := gt.MapN(false) // nil and empty maps are not distinguished
		keys := v.MapKeys()
		ks := make([]string, len(keys))
		for i, k := range keys {
			ks[i] = k.String()
		}
		sortStrings(ks)
		for _, k := range ks {
			n, err := rvToGT(v.MapIndex(reflect.ValueOf(k)))
			if err != nil {
				return nil, err
			}
			out.Put("k:"+k, n)
		}
		return out, nil
	case reflect.Struct:
		out := gt.MapN(false)
		for i := 0; i < v.NumField(); i++ {
			n, err := rvToGT(v.Field(i))
			if err != nil {
				return nil, err
			}
			out.Put("f:"+v.Type().Field(i).Name, n)
		}
		return out, nil
	}
	return nil, fmt.Errorf("unsupported kind %s", v.Kind())
}

func sortStrings(s []string) {
	for i := 1; i < len(s); i++ {
		for j := i; j > 0 && s[j] < s[j-1]; j-- {
			s[j], s[j-1] = s[j-1], s[j]
		}
	}
}

// loosen converts a tree read by goToGT into the form used for the
// differential against yaml.v3: ordered maps as plain maps, nil == empty.
func loosen(n *gt.Node) *gt.Node {
	c := gt.Unorder(n)
	var fix func(x *gt.Node) *gt.Node
	fix = func(x *gt.Node) *gt.Node {
		if x.Kind == gt.Map {
			if len(x.Keys) == 1 && (x.Keys[0] == "$nilslice") {
				return gt.SeqN()
			}
			if len(x.Keys) == 1 && (x.Keys[0] == "$nilmap") {
				return gt.MapN(false)
			}
			// a map read from an `any` holding map[string]any has "k:" keys; one
			// holding *ordered.MapSA has bare keys: normalise to bare
			for i, k := range x.Keys {
				x.Keys[i] = strings.TrimPrefix(k, "k:")
				x.Vals[i] = fix(x.Vals[i])
			}
			return x
		}
		for i := range x.Items {
			x.Items[i] = fix(x.Items[i])
		}
		return x
	}
	return fix(c)
}

// ---------------------------------------------------------------------------
// the property

var rec = ev.New("TestPropPartition", "(target type, document) pairs: struct types generated at run time with reflect.StructOf (1-8 fields of kinds string,int,bool,float64,any,[]string,[]int,[]any,map[string]string,map[string]any,nested struct,*struct,[]struct; tags named / named,omitempty / flags-only (\",omitempty\") / untagged / \"-\"; at most one ,inline of type map[string]any, *ordered.MapSA, any or *struct; optional alias lists) x mappings over any subset of primaries, aliases, skipped-field names and unknown names incl. \"\" with well-typed values and nulls, into fresh or pre-filled targets; oracle 1 = reference partition rule applied by reflection to an identical target; oracle 2 (alias-free, top-level inline map, fresh target, exact-typed values) = yaml.Node.Decode into the same type; non-trivial = >= 1 alias hit and >= 1 leftover key, or >= 3 field kinds; distinct by hash of (type, document)")

func TestPropPartition(t *testing.T) {
	ev.Check(t, 15000, 500000, func(t *rapid.T) {
		st := &stats{kinds: map[string]bool{}}
		g := &genState{t: t, stats: st}
		g.aliases = rapid.IntRange(0, 2).Draw(t, "aliases") > 0
		differential := !g.aliases && rapid.Bool().Draw(t, "differential")
		g.mapInlineOnly = differential
		ts := g.genType(0, true)
		doc := g.docFor(ts, differential)
		wide := rapid.IntRange(0, 7).Draw(t, "wide") == 0
		if wide {
			// a wide document: 65-140 extra unknown keys, shuffled among the others, so keys that
			// fields consume sit at every position incl. beyond 64
			n := rapid.IntRange(65, 140).Draw(t, "nfill")
			type kvp struct {
				k string
				v *gt.Node
			}
			var ps []kvp
			for i, k := range doc.Keys {
				ps = append(ps, kvp{k, doc.Vals[i]})
			}
			for i := 0; i < n; i++ {
				ps = append(ps, kvp{fmt.Sprintf("w%d", i), gt.IntN(int64(i))})
			}
			ps = rapid.Permutation(ps).Draw(t, "wideorder")
			wd := gt.MapN(true)
			for _, p := range ps {
				wd.Put(p.k, p.v)
			}
			doc = wd
		}
		fresh := differential || rapid.Bool().Draw(t, "fresh")
		viaNode := rapid.Bool().Draw(t, "vianode")
		rt := ts.build()

		actual := reflect.New(rt)
		expect := reflect.New(rt)
		if !fresh {
			prefill(ts, actual.Elem(), doc, 1)
			prefill(ts, expect.Elem(), doc, 1)
		}
		desc := func() string {
			j, _ := json.Marshal(map[string]any{"type": ts, "doc": doc, "fresh": fresh, "via_node": viaNode})
			return string(j)
		}
		if err := applyRule(ts, doc, expect.Elem(), st); err != nil {
			t.Fatalf("generator fault: %v\n%s", err, desc())
		}
		var src any = toSrc(doc)
		if sm, ok := src.(*ordered.MapSA); ok && sm.Len() >= 2 && rapid.IntRange(0, 3).Draw(t, "editedsource") == 0 {
			// a source map that was edited before it was handed over (an entry set and removed again, a key
			// removed and set again): its content is the document's, its storage still holds the vacated slot
			switch rapid.IntRange(0, 2).Draw(t, "edit") {
			case 0:
				sm.Set("zz-removed", "stale")
				sm.Delete("zz-removed")
			case 1:
				sm.Set("count", "stale")
				sm.Set("u1-removed", "stale")
				sm.Delete("u1-removed")
				sm.Delete("count")
				// (if the document itself has `count`, put it back where it was: rebuild instead)
				if doc.Has("count") {
					sm = toSrc(doc).(*ordered.MapSA)
					src = sm
				}
			default:
				// the LAST key removed and set again: same position, one vacated slot before it
				var lastK string
				var lastV any
				sm.Range(func(k string, v any) error { lastK, lastV = k, v; return nil })
				sm.Delete(lastK)
				sm.Set(lastK, lastV)
			}
			rec.Class("source-map-with-a-vacated-slot")
		}
		var node yaml.Node
		jb, _ := gt.ToJSON(doc)
		if err := yaml.Unmarshal(jb, &node); err != nil {
			t.Fatalf("generator fault: %v", err)
		}
		if viaNode {
			src = &node
		}
		// what an unmarshal does must not depend on the calls that came before it: one case in four is
		// preceded by a call that FAILS half way (keys of this document's names taken by fields, then an
		// ill-typed value), one in four by a call that succeeds on another type - neither may leave a trace
		switch rapid.IntRange(0, 3).Draw(t, "before") {
		case 0:
			var rejected struct {
				ZZ   any `yaml:"zz"`
				U1   any `yaml:"u1"`
				U2   any `yaml:"u2"`
				Rest any `yaml:"rest"`
				F0   any `yaml:"f0"`
				Bad  int `yaml:"bad"`
			}
			perr := ordered.Unmarshal(ordered.MapFromItems(
				ordered.TupleSA{Key: "zz", Value: 1}, ordered.TupleSA{Key: "u1", Value: 2}, ordered.TupleSA{Key: "u2", Value: 3},
				ordered.TupleSA{Key: "rest", Value: 4}, ordered.TupleSA{Key: "f0", Value: 5}, ordered.TupleSA{Key: "bad", Value: []any{"not", "an", "int"}}), &rejected)
			if perr == nil {
				t.Fatalf("harness: the ill-typed preceding document was accepted")
			}
			rec.Class("preceded-by-a-call-that-failed-half-way")
		case 1:
			var other struct {
				ZZ   string         `yaml:"zz"`
				Rest map[string]any `yaml:",inline"`
			}
			if perr := ordered.Unmarshal(ordered.MapFromItems(ordered.TupleSA{Key: "zz", Value: "x"}, ordered.TupleSA{Key: "u1", Value: 2}), &other); perr != nil {
				t.Fatalf("harness: preceding call failed: %v", perr)
			}
		}
		var uerr error
		func() {
			defer func() {
				if r := recover(); r != nil {
					uerr = fmt.Errorf("PANIC: %v", r)
				}
			}()
			uerr = ordered.Unmarshal(src, actual.Interface())
		}()
		if uerr != nil {
			t.Fatalf("ordered.Unmarshal of a well-typed document failed: %v\n%s", uerr, desc())
		}
		if d := deepEq(expect.Elem(), actual.Elem()); d != "" {
			en, _ := goToGT(expect.Elem().Interface())
			an, _ := goToGT(actual.Elem().Interface())
			t.Fatalf("destination differs from the partition rule: %s\nexpected %s\nactual   %s\n%s", d, gt.Show(en), gt.Show(an), desc())
		}
		if differential {
			y := reflect.New(rt)
			if err := node.Content[0].Decode(y.Interface()); err != nil {
				rec.Excluded("yaml.v3 rejects the (type, document) pair: " + firstWords(err.Error()))
			} else {
				an, _ := goToGT(actual.Elem().Interface())
				yn, _ := goToGT(y.Elem().Interface())
				if d := gt.Diff(loosen(yn), loosen(an), gt.Opt{}); d != "" {
					t.Fatalf("ordered.Unmarshal differs from yaml.v3's decoder: %s\nyaml.v3  %s\nordered  %s\n%s", d, gt.Show(loosen(yn)), gt.Show(loosen(an)), desc())
				}
				rec.Class("differential-checked")
			}
		}
		nt := (st.aliasHit >= 1 && st.leftover >= 1) || len(st.kinds) >= 3
		cls := []string{"inline=" + st.inline, fmt.Sprintf("fresh=%v", fresh)}
		if st.aliasHit > 0 {
			cls = append(cls, "alias-hit")
		}
		if st.leftover > 0 {
			cls = append(cls, "leftover")
		}
		if st.nullVals > 0 {
			cls = append(cls, "null-value")
		}
		if doc.Has("") {
			cls = append(cls, "empty-key")
		}
		if wide {
			cls = append(cls, "wide-document")
		}
		rec.Case(ev.HashStr(desc()), nt, cls...)
		rec.MaybeSample(nt, func() any { return json.RawMessage(desc()) })
	})
}

func firstWords(s string) string {
	f := strings.Fields(s)
	if len(f) > 6 {
		f = f[:6]
	}
	return strings.Join(f, " ")
}

// ---------------------------------------------------------------------------
// Declared types with EMBEDDED inline structs of an unexported type (reflect.StructOf cannot build
// those): the promoted fields are fields of the outer struct like any other.

type embCommon struct {
	Key   string   `yaml:"key" aliases:"id,identifier"`
	Tags  []string `yaml:"tags,omitempty"`
	Count int      `yaml:"count"`
}

type EmbWithRest struct {
	embCommon `yaml:",inline"`
	Name      string         `yaml:"name"`
	Rest      map[string]any `yaml:",inline"`
}

type EmbNoRest struct {
	embCommon `yaml:",inline"`
	Label     string `yaml:"label"`
}

// EmbPub is an EXPORTED embedded type: the embedded field itself is visible to the unmarshaler as the
// inline field, and one of its fields (Name) is hidden behind the outer struct's field of the same Go
// name while its key (`pubname`) stays distinct.
type EmbPub struct {
	Key   string   `yaml:"key" aliases:"id,identifier"`
	Tags  []string `yaml:"tags,omitempty"`
	Count int      `yaml:"count"`
	Name  string   `yaml:"pubname"`
}

type EmbPubOuter struct {
	EmbPub `yaml:",inline"`
	Name   string `yaml:"name"`
}

type EmbNested struct {
	Outer string         `yaml:"outer"`
	Sub   *EmbNoRest     `yaml:"sub"`
	Rest  map[string]any `yaml:",inline"`
}

var recEmb = ev.New("TestPropEmbeddedInlineStructs", "four declared target types that embed a struct type tagged `,inline` (unexported with and without a catch-all map, nested behind a pointer, and an exported one with a field hidden behind an outer field of the same Go name) x documents over any subset of the promoted fields' keys, their aliases, the outer fields' keys and unknown keys, well-typed values; oracle 1 = the stated rule computed by hand (field <- its key, else its first present alias; leftovers to the catch-all, in order), oracle 2 (no alias key in the document) = yaml.v3's own decoder into the same type; non-trivial = a promoted field is set and an unknown key is present; distinct by document")

func TestPropEmbeddedInlineStructs(t *testing.T) {
	ev.Check(t, 3000, 100000, func(t *rapid.T) {
		genDoc := func(label string, outerKeys []string) (*ordered.MapSA, map[string]any) {
			m := ordered.NewMap[string, any](0)
			vals := map[string]any{}
			keys := append([]string{"key", "id", "identifier", "tags", "count", "zz", "other"}, outerKeys...)
			keys = rapid.Permutation(keys).Draw(t, label+"order")
			for _, k := range keys {
				if !rapid.Bool().Draw(t, label+"has") {
					continue
				}
				var v any
				switch k {
				case "tags":
					v = []any{"a", rapid.SampledFrom([]string{"b", "c"}).Draw(t, label+"tag")}
				case "count":
					v = rapid.IntRange(-3, 40).Draw(t, label+"count")
				case "zz":
					v = ordered.MapFromItems(ordered.TupleSA{Key: "n", Value: 1})
				default:
					v = k + "-" + rapid.SampledFrom([]string{"x", "y"}).Draw(t, label+"v")
				}
				m.Set(k, v)
				vals[k] = v
			}
			return m, vals
		}
		expectCommon := func(vals map[string]any, consumed map[string]bool) embCommon {
			var c embCommon
			for _, k := range []string{"key", "id", "identifier"} {
				if v, ok := vals[k]; ok {
					c.Key = v.(string)
					consumed[k] = true
					break
				}
			}
			if v, ok := vals["tags"]; ok {
				for _, x := range v.([]any) {
					c.Tags = append(c.Tags, x.(string))
				}
				consumed["tags"] = true
			}
			if v, ok := vals["count"]; ok {
				c.Count = v.(int)
				consumed["count"] = true
			}
			return c
		}
		leftovers := func(m *ordered.MapSA, consumed map[string]bool) map[string]any {
			out := map[string]any{}
			m.Range(func(k string, v any) error {
				if !consumed[k] {
					out[k] = v
				}
				return nil
			})
			return out
		}
		sameRest := func(got, want map[string]any) bool {
			if len(got) != len(want) {
				return false
			}
			for k, w := range want {
				g, ok := got[k]
				if !ok || gt.Diff(gt.MustGo(w), gt.MustGo(g), gt.Opt{}) != "" {
					return false
				}
			}
			return true
		}
		differential := func(m *ordered.MapSA, vals map[string]any, into func() any, got any) {
			if _, a := vals["id"]; a {
				return
			}
			if _, a := vals["identifier"]; a {
				return
			}
			yb, err := yaml.Marshal(m)
			if err != nil {
				t.Fatalf("yaml.Marshal: %v", err)
			}
			ref := into()
			if err := yaml.Unmarshal(yb, ref); err != nil {
				t.Fatalf("yaml.v3 refuses the document: %v\n%s", err, yb)
			}
			// compared through their JSON forms (promoted fields included; an ordered map and a plain map
			// holding the same pairs print the same object; nil and empty collections are not told apart)
			rj, _ := json.Marshal(ref)
			gj, _ := json.Marshal(got)
			rn, _ := gt.FromJSON(rj)
			gn, _ := gt.FromJSON(gj)
			fold := func(n *gt.Node) {
				gt.Walk(n, func(_ string, x *gt.Node) {
					if x.Kind == gt.Map {
						for i, v := range x.Vals {
							if (v.Kind == gt.Seq && len(v.Items) == 0) || (v.Kind == gt.Map && len(v.Keys) == 0) {
								x.Vals[i] = gt.NullN()
							}
						}
					}
				})
			}
			fold(rn)
			fold(gn)
			if d := gt.Diff(gt.Unorder(rn), gt.Unorder(gn), gt.Opt{IgnoreOrder: true}); d != "" {
				t.Fatalf("ordered.Unmarshal differs from yaml.v3's decoder into %T: %s\nyaml.v3: %s\nordered: %s\n%s", got, d, rj, gj, yb)
			}
		}
		kind := rapid.IntRange(0, 3).Draw(t, "type")
		var nt bool
		var show string
		switch kind {
		case 3:
			m, vals := genDoc("d", []string{"name", "pubname"})
			var got EmbPubOuter
			if err := ordered.Unmarshal(m, &got); err != nil {
				t.Fatalf("Unmarshal into %T: %v", got, err)
			}
			consumed := map[string]bool{}
			c := expectCommon(vals, consumed)
			want := EmbPubOuter{EmbPub: EmbPub{Key: c.Key, Tags: c.Tags, Count: c.Count}}
			if v, ok := vals["name"]; ok {
				want.Name = v.(string)
			}
			if v, ok := vals["pubname"]; ok {
				want.EmbPub.Name = v.(string)
			}
			if !reflect.DeepEqual(got, want) {
				t.Fatalf("Unmarshal into EmbPubOuter: got %+v, the rule gives %+v\ndocument keys: %v", got, want, vals)
			}
			differential(m, vals, func() any { return &EmbPubOuter{} }, &got)
			nt = got.Key != "" && len(vals) > 2
			show = fmt.Sprint(vals)
		case 0:
			m, vals := genDoc("a", []string{"name"})
			var got EmbWithRest
			if err := ordered.Unmarshal(m, &got); err != nil {
				t.Fatalf("Unmarshal into %T: %v", got, err)
			}
			consumed := map[string]bool{}
			want := EmbWithRest{embCommon: expectCommon(vals, consumed)}
			if v, ok := vals["name"]; ok {
				want.Name = v.(string)
				consumed["name"] = true
			}
			want.Rest = leftovers(m, consumed)
			if !reflect.DeepEqual(got.embCommon, want.embCommon) || got.Name != want.Name || !sameRest(got.Rest, want.Rest) {
				t.Fatalf("Unmarshal into EmbWithRest: got %+v, the rule gives %+v\ndocument keys: %v", got, want, vals)
			}
			differential(m, vals, func() any { return &EmbWithRest{} }, &got)
			nt = (got.Key != "" || got.Count != 0) && len(want.Rest) > 0
			show = fmt.Sprint(vals)
		case 1:
			m, vals := genDoc("b", []string{"label"})
			var got EmbNoRest
			if err := ordered.Unmarshal(m, &got); err != nil {
				t.Fatalf("Unmarshal into %T: %v", got, err)
			}
			consumed := map[string]bool{}
			want := EmbNoRest{embCommon: expectCommon(vals, consumed)}
			if v, ok := vals["label"]; ok {
				want.Label = v.(string)
			}
			if !reflect.DeepEqual(got, want) {
				t.Fatalf("Unmarshal into EmbNoRest: got %+v, the rule gives %+v\ndocument keys: %v", got, want, vals)
			}
			differential(m, vals, func() any { return &EmbNoRest{} }, &got)
			nt = got.Key != "" && len(vals) > 2
			show = fmt.Sprint(vals)
		default:
			inner, ivals := genDoc("c", []string{"label"})
			outer := ordered.NewMap[string, any](0)
			ovals := map[string]any{}
			if rapid.Bool().Draw(t, "hasouter") {
				outer.Set("outer", "o")
				ovals["outer"] = "o"
			}
			outer.Set("sub", inner)
			if rapid.Bool().Draw(t, "hasextra") {
				outer.Set("extra", "e")
				ovals["extra"] = "e"
			}
			var got EmbNested
			if err := ordered.Unmarshal(outer, &got); err != nil {
				t.Fatalf("Unmarshal into %T: %v", got, err)
			}
			consumed := map[string]bool{}
			wantSub := EmbNoRest{embCommon: expectCommon(ivals, consumed)}
			if v, ok := ivals["label"]; ok {
				wantSub.Label = v.(string)
			}
			if got.Sub == nil || !reflect.DeepEqual(*got.Sub, wantSub) {
				t.Fatalf("Unmarshal into EmbNested: sub = %+v, the rule gives %+v\ndocument keys: %v", got.Sub, wantSub, ivals)
			}
			if _, ok := ovals["outer"]; ok != (got.Outer == "o") {
				t.Fatalf("Unmarshal into EmbNested: outer = %q", got.Outer)
			}
			if _, ok := ovals["extra"]; ok != (got.Rest["extra"] == "e") || len(got.Rest) > 1 {
				t.Fatalf("Unmarshal into EmbNested: rest = %v", got.Rest)
			}
			nt = got.Sub.Key != "" && len(got.Rest) > 0
			show = fmt.Sprint(ovals, ivals)
		}
		recEmb.Case(ev.Hash(kind, show), nt, fmt.Sprintf("type=%d", kind))
		recEmb.MaybeSample(nt, func() any { return show })
	})
}

// ---------------------------------------------------------------------------
// Two different struct types may print the same name: `type target struct{...}` declared inside two
// functions (the habit of table tests), or in two packages with the same last path element. What a
// type's fields are is a matter of the type, not of its printed name, nor of which type came first.

func sameNameA() any {
	type target struct {
		Title string         `yaml:"title"`
		Rest  map[string]any `yaml:",inline"`
		Name  string         `yaml:"alias" aliases:"name"`
	}
	return &target{}
}

func sameNameB() any {
	type target struct {
		Name  string         `yaml:"name"`
		Title string         `yaml:"heading" aliases:"title"`
		Count int            `yaml:"count"`
		Rest  map[string]any `yaml:",inline"`
	}
	return &target{}
}

func sameNameC() any {
	type target struct {
		Count string `yaml:"title"`
		Owner string `yaml:"owner"`
	}
	return &target{}
}

var recSameName = ev.New("TestPropSameNamedTypes", "three struct types that all print as `c16.target` (declared in three functions) with different fields, tags, alias lists and inline fields, unmarshalled in a drawn order (with repeats) from one document over a subset of the keys title / name / alias / heading / count / owner / extra; each result must equal yaml.v3's decode of the same document into the same type (alias keys left out of the comparison document); non-trivial = all three types met in one process; distinct by (order, document)")

func TestPropSameNamedTypes(t *testing.T) {
	makers := []func() any{sameNameA, sameNameB, sameNameC}
	ev.Check(t, 600, 20000, func(t *rapid.T) {
		m := ordered.NewMap[string, any](0)
		for _, k := range rapid.Permutation([]string{"title", "name", "heading", "count", "owner", "extra"}).Draw(t, "keys") {
			if !rapid.Bool().Draw(t, "has") {
				continue
			}
			if k == "count" {
				// `count` is an int in one type and unknown to the others
				continue
			}
			m.Set(k, k+"-value")
		}
		order := rapid.SliceOfN(rapid.IntRange(0, 2), 2, 6).Draw(t, "order")
		seen := map[int]bool{}
		for _, which := range order {
			seen[which] = true
			got := makers[which]()
			if err := ordered.Unmarshal(m, got); err != nil {
				t.Fatalf("Unmarshal into type %d: %v", which, err)
			}
			// reference: yaml.v3 on a document in which every alias key is renamed to the field's own key
			// when that is absent (the stated alias rule), so that yaml.v3 - which knows no aliases - agrees
			ref := ordered.NewMap[string, any](0)
			m.Range(func(k string, v any) error { ref.Set(k, v); return nil })
			switch which {
			case 0:
				if v, ok := ref.Get("name"); ok && !ref.Contains("alias") {
					ref.Replace("name", "alias", v)
				}
			case 1:
				if v, ok := ref.Get("title"); ok && !ref.Contains("heading") {
					ref.Replace("title", "heading", v)
				}
			}
			yb, err := yaml.Marshal(ref)
			if err != nil {
				t.Fatalf("harness: %v", err)
			}
			want := makers[which]()
			if err := yaml.Unmarshal(yb, want); err != nil {
				t.Fatalf("harness: yaml.v3 refuses the document: %v\n%s", err, yb)
			}
			gj, _ := json.Marshal(got)
			wj, _ := json.Marshal(want)
			if string(gj) != string(wj) {
				t.Fatalf("Unmarshal into the %d-th type named `target` (order %v) gives %s, yaml.v3 gives %s\ndocument: %s", which, order, gj, wj, yb)
			}
		}
		recSameName.Case(ev.Hash(fmt.Sprint(order), fmt.Sprint(m.ToMap())), len(seen) == 3)
	})
}
