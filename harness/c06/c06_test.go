// C06 - signing a step list signs every command step at every depth, or refuses.
package c06

import (
	"context"
	"fmt"
	"reflect"
	"sort"
	"strings"
	"testing"

	pipeline "github.com/buildkite/go-pipeline"
	"github.com/buildkite/go-pipeline/ordered"
	"github.com/buildkite/go-pipeline/signature"
	"pgregory.net/rapid"

	"verif/harness/internal/canon"
	"verif/harness/internal/ev"
	"verif/harness/internal/gt"
	"verif/harness/internal/keys"
	"verif/harness/internal/sgen"
)

func TestMain(m *testing.M) { ev.Main(m) }

type lstats struct {
	sharedSig *pipeline.Signature
	maxCmdDepth     int
	unknownDepth    int // -1 none
	ncmd, nunknown  int
	shadowed, total int
	ncmdSeen        int
}

// attrs: the attributes real pipelines put on command and group steps (unknown to this library: they
// live in the remaining fields) - none of them has any bearing on whether a step is signed
func attrs(t *rapid.T) map[string]any {
	if rapid.IntRange(0, 2).Draw(t, "attrs") != 0 {
		return nil
	}
	out := map[string]any{}
	pool := map[string][]any{
		"skip":                     {true, "frozen until the release", false, ""},
		"if":                       {"build.branch == 'main'", "false"},
		"depends_on":               {"build", []any{"a", "b"}},
		"allow_dependency_failure": {true},
		"soft_fail":                {true, []any{map[string]any{"exit_status": 1}}},
		"branches":                 {"main", "!main"},
		"parallelism":              {0, 3},
		"concurrency":              {1},
		"timeout_in_minutes":       {0, 10},
		"disabled":                 {true},
		"signature":                {"not-a-signature"},
	}
	names := make([]string, 0, len(pool))
	for k := range pool {
		names = append(names, k)
	}
	sort.Strings(names) // (draws must not follow Go's map iteration order)
	for _, k := range names {
		if rapid.IntRange(0, 3).Draw(t, "attr-"+k) == 0 {
			out[k] = rapid.SampledFrom(pool[k]).Draw(t, "attrv-"+k)
		}
	}
	return out
}

func genSteps(g *sgen.G, t *rapid.T, depth int, allowUnknown bool, st *lstats, penvNames []string) pipeline.Steps {
	n := rapid.IntRange(0, 4).Draw(t, "nsteps")
	if depth == 0 {
		n = rapid.IntRange(1, 5).Draw(t, "nsteps0")
	}
	if depth <= 1 && rapid.IntRange(0, 39).Draw(t, "longlist") == 0 {
		n = rapid.IntRange(65, 80).Draw(t, "nlonglist")
	}
	var out pipeline.Steps
	for i := 0; i < n; i++ {
		switch k := rapid.IntRange(0, 11).Draw(t, "kind"); {
		case k < 3:
			s, _ := g.Step()
			// controlled overlap with the pipeline env
			if len(penvNames) > 0 && rapid.IntRange(0, 1).Draw(t, "overlap") == 0 {
				if s.Env == nil {
					s.Env = map[string]string{}
				}
				for _, nme := range penvNames {
					if rapid.Bool().Draw(t, "shadow") {
						s.Env[nme] = "step-" + nme
					}
				}
			}
			// steps may arrive signed already (a signed pipeline uploaded again; a step duplicated by struct
			// copy shares its Signature object with the original): each leaves with a signature of its own
			switch rapid.IntRange(0, 5).Draw(t, "presigned") {
			case 0:
				if st.sharedSig == nil {
					st.sharedSig = &pipeline.Signature{Algorithm: "EdDSA", SignedFields: []string{"command"}, Value: "stale"}
				}
				s.Signature = st.sharedSig
			case 1:
				s.Signature = &pipeline.Signature{Algorithm: "none", SignedFields: []string{"command", "env::GONE"}, Value: "stale too"}
			}
			for k, v := range attrs(t) {
				if k == "signature" {
					continue // a modelled field of command steps, not a remaining one
				}
				if s.RemainingFields == nil {
					s.RemainingFields = map[string]any{}
				}
				s.RemainingFields[k] = v
			}
			st.ncmd++
			if depth > st.maxCmdDepth {
				st.maxCmdDepth = depth
			}
			out = append(out, s)
		case k == 3:
			if rapid.Bool().Draw(t, "scalarwait") {
				out = append(out, &pipeline.WaitStep{Scalar: "wait"})
			} else {
				out = append(out, &pipeline.WaitStep{Contents: map[string]any{"wait": nil, "continue_on_failure": true}})
			}
		case k == 4:
			out = append(out, &pipeline.InputStep{Contents: map[string]any{"block": "Release", "fields": []any{ordered.MapFromItems(ordered.TupleSA{Key: "text", Value: "x"})}}})
		case k == 5:
			out = append(out, &pipeline.TriggerStep{Contents: map[string]any{"trigger": "deploy", "build": map[string]any{"env": map[string]any{"A": "1"}}}})
		case k >= 6 && k < 10 && depth < 4:
			name := "group"
			grp := &pipeline.GroupStep{Group: &name, Key: g.Str("gkey"), RemainingFields: attrs(t)}
			grp.Steps = genSteps(g, t, depth+1, allowUnknown, st, penvNames)
			if grp.Steps == nil {
				grp.Steps = pipeline.Steps{}
			}
			out = append(out, grp)
		case k == 10 && allowUnknown:
			st.nunknown++
			if st.unknownDepth < depth {
				st.unknownDepth = depth
			}
			if rapid.Bool().Draw(t, "unkscalar") {
				out = append(out, &pipeline.UnknownStep{Contents: "mystery"})
			} else {
				out = append(out, &pipeline.UnknownStep{Contents: ordered.MapFromItems(ordered.TupleSA{Key: "future", Value: "step"})})
			}
		default:
			s, _ := g.Step()
			st.ncmd++
			if depth > st.maxCmdDepth {
				st.maxCmdDepth = depth
			}
			out = append(out, s)
		}
	}
	return out
}

// plantUnknown inserts 1-2 unknown steps at uniformly chosen (list, position) places of the
// step tree: every list at every depth and every index is equally likely.
func plantUnknown(t *rapid.T, top pipeline.Steps, st *lstats) pipeline.Steps {
	for k, n := 0, rapid.IntRange(1, 2).Draw(t, "nunknown"); k < n; k++ {
		type slot struct {
			group *pipeline.GroupStep // nil = top level
			depth int
		}
		slots := []slot{{nil, 0}}
		var collect func(ss pipeline.Steps, depth int)
		collect = func(ss pipeline.Steps, depth int) {
			for _, s := range ss {
				if g, ok := s.(*pipeline.GroupStep); ok {
					slots = append(slots, slot{g, depth + 1})
					collect(g.Steps, depth+1)
				}
			}
		}
		collect(top, 0)
		sl := slots[rapid.IntRange(0, len(slots)-1).Draw(t, "unkslot")]
		var unk pipeline.Step = &pipeline.UnknownStep{Contents: "mystery"}
		if rapid.Bool().Draw(t, "unkmap") {
			unk = &pipeline.UnknownStep{Contents: ordered.MapFromItems(ordered.TupleSA{Key: "future", Value: "step"})}
		}
		insert := func(ss pipeline.Steps) pipeline.Steps {
			at := rapid.IntRange(0, len(ss)).Draw(t, "unkat")
			out := append(pipeline.Steps{}, ss[:at]...)
			out = append(out, unk)
			return append(out, ss[at:]...)
		}
		if sl.group == nil {
			top = insert(top)
		} else {
			sl.group.Steps = insert(sl.group.Steps)
		}
		st.nunknown++
		if sl.depth > st.unknownDepth {
			st.unknownDepth = sl.depth
		}
	}
	return top
}

func walk(ss pipeline.Steps, f func(*pipeline.CommandStep)) {
	for _, s := range ss {
		switch t := s.(type) {
		case *pipeline.CommandStep:
			f(t)
		case *pipeline.GroupStep:
			walk(t.Steps, f)
		}
	}
}

var mandatory = []string{"command", "env", "plugins", "matrix", "repository_url"}

var rec = ev.New("TestPropSignSteps", "step lists built as structs: mixtures of command, wait, input, trigger, group (nested to depth 4) and unknown steps at every position and depth, pipeline env x step env with controlled overlap, all key kinds (EdDSA, ES512, PS512, ES256 signer); success => every command step at every depth carries a verifying signature naming the key's algorithm with exactly the expected sorted field list, nothing else changed, caller env untouched; any unknown step => error; non-trivial = a command step at depth >= 2 or an unknown step at depth >= 1; distinct by hash of the step list and env")

// logSink is a Logger that keeps what it is handed.
type logSink struct{ lines []string }

func (l *logSink) Debug(f string, v ...any) { l.lines = append(l.lines, fmt.Sprintf(f, v...)) }

func TestPropSignSteps(t *testing.T) {
	pool := keys.Pool()
	ctx := context.Background()
	ev.Check(t, 1000, 40000, func(t *rapid.T) {
		g := sgen.New(t, sgen.Opts{BigMaps: true, NilDims: true})
		st := &lstats{unknownDepth: -1}
		penv := g.EnvMap("penv", 4)
		if rapid.IntRange(0, 5).Draw(t, "nilpenv") == 0 {
			penv = nil
		}
		var pnames []string
		for k := range penv {
			pnames = append(pnames, k)
		}
		sort.Strings(pnames)
		allowUnknown := rapid.IntRange(0, 2).Draw(t, "allowunknown") == 0
		steps := genSteps(g, t, 0, false, st, pnames)
		if allowUnknown {
			steps = plantUnknown(t, steps, st)
		}
		kp := rapid.SampledFrom(pool).Draw(t, "key")
		if rapid.IntRange(0, 3).Draw(t, "slowkey") > 0 {
			kp = pool[rapid.IntRange(0, 1).Draw(t, "fastkey")] // mostly EdDSA: cheap
		}
		if st.ncmd > 40 {
			kp = pool[rapid.IntRange(0, 1).Draw(t, "fastkeyforlonglist")] // long lists: EdDSA only (cost)
		}
		// some steps arrive already carrying a (stale / foreign) signature: a pipeline uploaded again
		presigned := 0
		walk(steps, func(cs *pipeline.CommandStep) {
			if rapid.IntRange(0, 3).Draw(t, "presigned") == 0 {
				presigned++
				cs.Signature = &pipeline.Signature{
					Algorithm:    rapid.SampledFrom([]string{kp.Alg, kp.Alg, "EdDSA", "ES512", "none"}).Draw(t, "oldalg"),
					SignedFields: rapid.SampledFrom([][]string{{"command", "env", "matrix", "plugins", "repository_url"}, {"command"}, nil}).Draw(t, "oldfields"),
					Value:        rapid.SampledFrom([]string{"stale..signature", "", "eyJhbGciOiJFZERTQSJ9..AAAA"}).Draw(t, "oldvalue"),
				}
			}
		})
		repo := g.RepoURL()

		before := canon.Steps(steps, canon.Mode{NoSignature: true})
		penvCopy := sgen.CopyStrMap(penv)
		var opts []signature.Option
		// a caller that layers its options: an earlier WithEnv holding a sub-map of the pipeline env
		// (same values, so "last one wins" and "later ones are layered over earlier ones" agree on the
		// env that is signed) - that map is the caller's too and must not be modified either
		var earlier, earlierCopy map[string]string
		if len(penv) > 0 && rapid.IntRange(0, 3).Draw(t, "twowithenv") == 0 {
			earlier = map[string]string{}
			for _, k := range pnames {
				if v, ok := penv[k]; ok && rapid.Bool().Draw(t, "inearlier") {
					earlier[k] = v
				}
			}
			if len(earlier) == 0 {
				earlier[pnames[0]] = penv[pnames[0]]
			}
			earlierCopy = sgen.CopyStrMap(earlier)
			opts = append(opts, signature.WithEnv(earlier))
			rec.Class("two-WithEnv-options")
		}
		if penv != nil || rapid.Bool().Draw(t, "withenvnil") {
			opts = append(opts, signature.WithEnv(penv))
			// the remaining options: debug signing, with and without somewhere to log to
			debugMode := rapid.IntRange(0, 3).Draw(t, "debugsigning")
			switch debugMode {
			case 1:
				opts = append(opts, signature.WithDebugSigning(true), signature.WithLogger(&logSink{}))
				rec.Class("options:debug-signing-with-logger")
			case 2:
				opts = append(opts, signature.WithDebugSigning(true))
				rec.Class("options:debug-signing-without-logger")
			case 3:
				opts = append(opts, signature.WithLogger(&logSink{}))
			}
		}
		var err error
		func() {
			defer func() {
				if r := recover(); r != nil {
					err = fmt.Errorf("PANIC: %v", r)
				}
			}()
			err = signature.SignSteps(ctx, steps, kp.Priv, repo, opts...)
		}()
		if err != nil && strings.HasPrefix(err.Error(), "PANIC") {
			t.Fatalf("%v\nsteps: %s", err, gt.Show(before))
		}
		if !reflect.DeepEqual(penv, penvCopy) {
			t.Fatalf("SignSteps modified the caller's env map: %v -> %v", penvCopy, penv)
		}
		if earlier != nil && !reflect.DeepEqual(earlier, earlierCopy) {
			t.Fatalf("SignSteps modified the env map of the caller's first WithEnv option: %v -> %v", earlierCopy, earlier)
		}
		if st.nunknown > 0 {
			if err == nil {
				t.Fatalf("step list contains %d unknown step(s) (deepest at depth %d) but SignSteps succeeded\nsteps: %s", st.nunknown, st.unknownDepth, gt.Show(before))
			}
		} else {
			if err != nil {
				t.Fatalf("SignSteps failed on a list without unknown steps: %v\nsteps: %s", err, gt.Show(before))
			}
			checkSigned(t, ctx, steps, before, kp, penv, repo, st)
			// a multi-step sequence: the pipeline env changes and the key is rotated (same kind, same kid),
			// then the same list is signed again - every statement about the result holds again
			if rapid.Bool().Draw(t, "resign") {
				penv2 := sgen.CopyStrMap(penv)
				if penv2 == nil {
					penv2 = map[string]string{}
				}
				penv2["ADDED_LATER"] = "v"
				if len(pnames) > 0 && rapid.Bool().Draw(t, "dropvar") {
					delete(penv2, pnames[0])
				}
				kp2 := keys.Other(kp)
				if err := signature.SignSteps(ctx, steps, kp2.Priv, repo, signature.WithEnv(penv2)); err != nil {
					t.Fatalf("signing the same list again failed: %v", err)
				}
				st.ncmdSeen = 0
				checkSigned(t, ctx, steps, before, kp2, penv2, repo, st)
				rec.Class("signed-twice")
			}
		}
		if presigned > 0 {
			rec.Class("pre-existing-signatures")
		}
		nt := st.maxCmdDepth >= 2 || st.unknownDepth >= 1
		cls := []string{"key=" + kp.Kind, fmt.Sprintf("unknown=%v", st.nunknown > 0), fmt.Sprintf("cmddepth=%d", st.maxCmdDepth)}
		if st.shadowed > 0 {
			cls = append(cls, "shadowed-var")
		}
		rec.Case(ev.Hash(gt.Show(before), penv, repo, kp.Name), nt, cls...)
		rec.MaybeSample(nt, func() any {
			return map[string]any{"steps": gt.Show(before), "pipeline_env": penv, "key": kp.Kind, "unknown_steps": st.nunknown, "signed": err == nil}
		})
	})
}

// checkSigned asserts everything the statement says about a successfully signed list.
func checkSigned(t *rapid.T, ctx context.Context, steps pipeline.Steps, before *gt.Node, kp keys.Pair, penv map[string]string, repo string, st *lstats) {
	{
		{
			after := canon.Steps(steps, canon.Mode{NoSignature: true})
			if d := gt.Diff(before, after, gt.Opt{}); d != "" {
				t.Fatalf("SignSteps changed something other than signatures: %s", d)
			}
			// verification env: pipeline env plus unrelated variables
			venv := sgen.CopyStrMap(penv)
			if venv == nil {
				venv = map[string]string{}
			}
			venv["BUILDKITE_UNRELATED_"+fmt.Sprint(len(venv))] = "x"
			count := 0
			walk(steps, func(cs *pipeline.CommandStep) {
				count++
				if cs.Signature == nil {
					t.Fatalf("command step %q (one of %d) was left unsigned\nsteps: %s", cs.Command, st.ncmd, gt.Show(before))
				}
				if cs.Signature.Algorithm != kp.Alg {
					t.Fatalf("signature algorithm %q, key algorithm %q", cs.Signature.Algorithm, kp.Alg)
				}
				want := append([]string{}, mandatory...)
				for n := range penv {
					if _, shadow := cs.Env[n]; !shadow {
						want = append(want, "env::"+n)
					} else {
						st.shadowed++
					}
					st.total++
				}
				sort.Strings(want)
				if !reflect.DeepEqual(cs.Signature.SignedFields, want) {
					t.Fatalf("signed fields = %q, want %q (step env %v, pipeline env %v)", cs.Signature.SignedFields, want, cs.Env, penv)
				}
				sf := &signature.CommandStepWithInvariants{CommandStep: *cs, RepositoryURL: repo}
				if verr := signature.Verify(ctx, cs.Signature, kp.Pub, sf, signature.WithEnv(venv)); verr != nil {
					t.Fatalf("signature attached by SignSteps does not verify: %v\nstep: %s", verr, gt.Show(canon.Step(cs, canon.Raw)))
				}
			})
			if count != st.ncmd {
				t.Fatalf("walk found %d command steps, generator made %d", count, st.ncmd)
			}
		}
	}
}

// Parsed route: a parsed document (groups, scalars, unknown step inside the deepest group built from structs).
func TestCorpusParsed(t *testing.T) {
	ev.SkipIfReplayingOther(t)
	ctx := context.Background()
	p, err := pipeline.Parse(strings.NewReader(`
env: {A: "1", B: "2"}
steps:
  - command: one
    env: {A: override}
  - wait
  - group: g1
    steps:
      - command: two
      - group: g2
        steps:
          - command: three
            plugins: [docker#v1: {image: x}]
          - block: ok
`))
	if err != nil {
		t.Fatal(err)
	}
	kp := keys.Pool()[0]
	if err := signature.SignSteps(ctx, p.Steps, kp.Priv, "repo", signature.WithEnv(p.Env.ToMap())); err != nil {
		t.Fatal(err)
	}
	n := 0
	walk(p.Steps, func(cs *pipeline.CommandStep) {
		n++
		if cs.Signature == nil {
			t.Fatalf("step %q unsigned", cs.Command)
		}
	})
	if n != 3 {
		t.Fatalf("expected 3 command steps, walked %d", n)
	}
}
