// C01 - any semantic change to signed step content makes verification fail.
package c01

import (
	"context"
	"encoding/base64"
	"fmt"
	"math"
	"sort"
	"strings"
	"testing"

	pipeline "github.com/buildkite/go-pipeline"
	"github.com/buildkite/go-pipeline/ordered"
	"github.com/buildkite/go-pipeline/signature"
	"github.com/lestrrat-go/jwx/v2/jwk"
	"pgregory.net/rapid"

	"verif/harness/internal/canon"
	"verif/harness/internal/ev"
	"verif/harness/internal/gt"
	"verif/harness/internal/keys"
	"verif/harness/internal/sgen"
)

func TestMain(m *testing.M) { ev.Main(m) }

// world is everything verification looks at.
type world struct {
	step  *pipeline.CommandStep
	canon map[string]string // plugin source -> canonical
	venv  map[string]string // verification env
	penv  map[string]string // what was signed as pipeline env
	// signedStepEnv: the step's own env at signing time (what shadows pipeline variables)
	signedStepEnv map[string]string
	repo          string
	sig           *pipeline.Signature
	kp            keys.Pair
	vkey          any
}

func (w *world) verify(ctx context.Context) error {
	sf := &signature.CommandStepWithInvariants{CommandStep: *w.step, RepositoryURL: w.repo}
	var err error
	func() {
		defer func() {
			if r := recover(); r != nil {
				err = fmt.Errorf("PANIC in Verify: %v", r)
			}
		}()
		err = signature.Verify(ctx, w.sig, w.vkey, sf, signature.WithEnv(w.venv))
	}()
	return err
}

type mutation struct {
	name     string
	semantic bool // true: verification must fail; false: must still succeed
	apply    func(t *rapid.T, w *world, aux *auxData) bool
}

type auxData struct {
	ctx      context.Context
	otherSig *pipeline.Signature // valid signature of a different step, same key and env
	g        *sgen.G
}

const mut = "☠MUTATED"

func sortedKeys[V any](m map[string]V) []string {
	ks := make([]string, 0, len(m))
	for k := range m {
		ks = append(ks, k)
	}
	sort.Strings(ks)
	return ks
}

func canonOf(w *world, src string) string {
	return (&pipeline.Plugin{Source: src}).FullSource()
}

// cfgEffective: empty map / empty slice configs are documented as equivalent to nil.
func cfgEmpty(c any) bool {
	switch t := c.(type) {
	case nil:
		return true
	case map[string]any:
		return len(t) == 0
	case []any:
		return len(t) == 0
	}
	return false
}

func pluginSem(p *pipeline.Plugin) string {
	c := canon.Value(p.Config)
	if cfgEmpty(p.Config) {
		c = gt.NullN()
	}
	return p.FullSource() + "\x00" + gt.Show(c)
}

func matrixEmpty(m *pipeline.Matrix) bool {
	return m == nil || (len(m.Setup) == 0 && len(m.Adjustments) == 0 && len(m.RemainingFields) == 0)
}

// expectSigned: the pipeline variables that MUST be signed for this step - every one the step's own
// env does not shadow - computed from the inputs, never read off the signature under test.
func expectSigned(w *world) []string {
	var out []string
	for n := range w.penv {
		if _, shadowed := w.signedStepEnv[n]; !shadowed {
			out = append(out, n)
		}
	}
	sort.Strings(out)
	return out
}

func signedEnvFields(sig *pipeline.Signature) []string {
	var out []string
	for _, f := range sig.SignedFields {
		if strings.HasPrefix(f, "env::") {
			out = append(out, strings.TrimPrefix(f, "env::"))
		}
	}
	return out
}

// mutateConfig changes a config tree at a random depth; returns false if there is nothing to change.
func mutateConfig(t *rapid.T, c any) (any, bool) {
	switch v := c.(type) {
	case map[string]any:
		ks := sortedKeys(v)
		switch op := rapid.IntRange(0, 4).Draw(t, "cfgop"); {
		case op == 0 || len(ks) == 0:
			v["added"+mut] = 1
			return v, true
		case op == 1:
			delete(v, rapid.SampledFrom(ks).Draw(t, "delk"))
			return v, true
		case op == 2:
			k := rapid.SampledFrom(ks).Draw(t, "renk")
			v[k+mut] = v[k]
			delete(v, k)
			return v, true
		default:
			k := rapid.SampledFrom(ks).Draw(t, "deepk")
			switch v[k].(type) {
			case map[string]any, []any:
				if rapid.Bool().Draw(t, "descend") {
					nv, ok := mutateConfig(t, v[k])
					if ok {
						v[k] = nv
						return v, true
					}
				}
			}
			v[k] = mut // a value that never occurs otherwise
			return v, true
		}
	case []any:
		switch op := rapid.IntRange(0, 2).Draw(t, "sliceop"); {
		case op == 0 || len(v) == 0:
			return append(v, mut), true
		case op == 1:
			return v[:len(v)-1], true
		default:
			v[rapid.IntRange(0, len(v)-1).Draw(t, "ix")] = mut
			return v, true
		}
	}
	return c, false
}

func flipBit(t *rapid.T, b []byte) {
	i := rapid.IntRange(0, len(b)-1).Draw(t, "byte")
	b[i] ^= 1 << rapid.IntRange(0, 7).Draw(t, "bit")
}

var catalogue = []mutation{
	// ---- command
	{"command-append", true, func(t *rapid.T, w *world, _ *auxData) bool { w.step.Command += "x"; return true }},
	{"command-remove-char", true, func(t *rapid.T, w *world, _ *auxData) bool {
		r := []rune(w.step.Command)
		if len(r) == 0 {
			return false
		}
		i := rapid.IntRange(0, len(r)-1).Draw(t, "i")
		w.step.Command = string(append(r[:i:i], r[i+1:]...))
		return true
	}},
	{"command-change-char", true, func(t *rapid.T, w *world, _ *auxData) bool {
		r := []rune(w.step.Command)
		if len(r) == 0 {
			return false
		}
		i := rapid.IntRange(0, len(r)-1).Draw(t, "i")
		if r[i] == 'Q' {
			r[i] = 'R'
		} else {
			r[i] = 'Q'
		}
		w.step.Command = string(r)
		return true
	}},
	{"command-line-ending", true, func(t *rapid.T, w *world, _ *auxData) bool {
		// CRLF <-> LF at one line break: a different command text (a shell sees the carriage return)
		switch c := w.step.Command; {
		case strings.Contains(c, "\r\n"):
			w.step.Command = strings.Replace(c, "\r\n", "\n", 1)
		case strings.Contains(c, "\n"):
			w.step.Command = strings.Replace(c, "\n", "\r\n", 1)
		default:
			return false
		}
		return true
	}},
	// ---- step env
	{"stepenv-add", true, func(t *rapid.T, w *world, _ *auxData) bool {
		if w.step.Env == nil {
			w.step.Env = map[string]string{}
		}
		w.step.Env["NEW"+mut] = "v"
		return true
	}},
	{"stepenv-remove", true, func(t *rapid.T, w *world, _ *auxData) bool {
		if len(w.step.Env) == 0 {
			return false
		}
		delete(w.step.Env, rapid.SampledFrom(sortedKeys(w.step.Env)).Draw(t, "k"))
		return true
	}},
	{"stepenv-change-value", true, func(t *rapid.T, w *world, _ *auxData) bool {
		if len(w.step.Env) == 0 {
			return false
		}
		w.step.Env[rapid.SampledFrom(sortedKeys(w.step.Env)).Draw(t, "k")] += mut
		return true
	}},
	{"stepenv-rename-key", true, func(t *rapid.T, w *world, _ *auxData) bool {
		if len(w.step.Env) == 0 {
			return false
		}
		k := rapid.SampledFrom(sortedKeys(w.step.Env)).Draw(t, "k")
		w.step.Env[k+mut] = w.step.Env[k]
		delete(w.step.Env, k)
		return true
	}},
	{"stepenv-shadows-signed-pipeline-var", true, func(t *rapid.T, w *world, _ *auxData) bool {
		se := signedEnvFields(w.sig)
		if len(se) == 0 {
			return false
		}
		n := rapid.SampledFrom(se).Draw(t, "n")
		if w.step.Env == nil {
			w.step.Env = map[string]string{}
		}
		w.step.Env[n] = w.venv[n] // even with the same value: the variable now comes from the step
		return true
	}},
	// ---- plugins
	{"plugins-swap-adjacent", true, func(t *rapid.T, w *world, _ *auxData) bool {
		var cand []int
		for i := 0; i+1 < len(w.step.Plugins); i++ {
			if pluginSem(w.step.Plugins[i]) != pluginSem(w.step.Plugins[i+1]) {
				cand = append(cand, i)
			}
		}
		if len(cand) == 0 {
			return false
		}
		i := rapid.SampledFrom(cand).Draw(t, "i")
		w.step.Plugins[i], w.step.Plugins[i+1] = w.step.Plugins[i+1], w.step.Plugins[i]
		return true
	}},
	{"plugins-add", true, func(t *rapid.T, w *world, _ *auxData) bool {
		at := rapid.IntRange(0, len(w.step.Plugins)).Draw(t, "at")
		np := &pipeline.Plugin{Source: "added-plugin#v9", Config: nil}
		w.step.Plugins = append(w.step.Plugins[:at:at], append(pipeline.Plugins{np}, w.step.Plugins[at:]...)...)
		return true
	}},
	{"plugins-remove", true, func(t *rapid.T, w *world, _ *auxData) bool {
		if len(w.step.Plugins) == 0 {
			return false
		}
		i := rapid.IntRange(0, len(w.step.Plugins)-1).Draw(t, "i")
		w.step.Plugins = append(w.step.Plugins[:i:i], w.step.Plugins[i+1:]...)
		return true
	}},
	{"plugin-source-change", true, func(t *rapid.T, w *world, _ *auxData) bool {
		if len(w.step.Plugins) == 0 {
			return false
		}
		p := w.step.Plugins[rapid.IntRange(0, len(w.step.Plugins)-1).Draw(t, "i")]
		old := p.FullSource()
		name, ref, hasRef := strings.Cut(p.Source, "#")
		suffixed := name + "-buildkite-plugin"
		if hasRef {
			suffixed += "#" + ref
		}
		short := old != p.Source && strings.HasPrefix(old, "github.com/")
		p.Source = rapid.SampledFrom([]string{p.Source + "x", "other-org/" + "replacement#v1", p.Source + "#ref2", suffixed}).Draw(t, "newsrc")
		if p.Source == suffixed {
			// by the documented rule a short-form name with the suffix appended is another plugin
			return short
		}
		return p.FullSource() != old
	}},
	{"plugin-config-change", true, func(t *rapid.T, w *world, _ *auxData) bool {
		if len(w.step.Plugins) == 0 {
			return false
		}
		p := w.step.Plugins[rapid.IntRange(0, len(w.step.Plugins)-1).Draw(t, "i")]
		before := pluginSem(p)
		if cfgEmpty(p.Config) {
			if rapid.Bool().Draw(t, "tofalsy") {
				p.Config = rapid.SampledFrom([]any{false, 0, ""}).Draw(t, "falsy")
			} else {
				p.Config = map[string]any{"added" + mut: true}
			}
			return true
		}
		nc, ok := mutateConfig(t, p.Config)
		if !ok {
			// a scalar as the whole config: replace it by another scalar (false, 0 and "" are all
			// different content, and different from having no config)
			var cand []any
			for _, x := range []any{false, 0, "", true, "y"} {
				if x != p.Config {
					cand = append(cand, x)
				}
			}
			p.Config = rapid.SampledFrom(cand).Draw(t, "scalarcfg")
			return true
		}
		p.Config = nc
		return pluginSem(p) != before
	}},
	// ---- matrix
	{"matrix-setup-value-add", true, func(t *rapid.T, w *world, _ *auxData) bool {
		m := w.step.Matrix
		if m == nil || len(m.Setup) == 0 {
			return false
		}
		d := rapid.SampledFrom(sortedKeys(m.Setup)).Draw(t, "d")
		m.Setup[d] = append(m.Setup[d], mut)
		return true
	}},
	{"matrix-setup-value-remove", true, func(t *rapid.T, w *world, _ *auxData) bool {
		m := w.step.Matrix
		if m == nil {
			return false
		}
		for _, d := range sortedKeys(m.Setup) {
			if len(m.Setup[d]) > 0 {
				m.Setup[d] = m.Setup[d][:len(m.Setup[d])-1]
				return true
			}
		}
		return false
	}},
	{"matrix-setup-value-change", true, func(t *rapid.T, w *world, _ *auxData) bool {
		m := w.step.Matrix
		if m == nil {
			return false
		}
		for _, d := range sortedKeys(m.Setup) {
			if len(m.Setup[d]) > 0 {
				m.Setup[d][rapid.IntRange(0, len(m.Setup[d])-1).Draw(t, "i")] += mut
				return true
			}
		}
		return false
	}},
	{"matrix-dimension-add", true, func(t *rapid.T, w *world, _ *auxData) bool {
		if w.step.Matrix == nil {
			w.step.Matrix = &pipeline.Matrix{}
		}
		if w.step.Matrix.Setup == nil {
			w.step.Matrix.Setup = pipeline.MatrixSetup{}
		}
		w.step.Matrix.Setup["newdim"+mut] = []string{"v"}
		return true
	}},
	{"matrix-dimension-remove", true, func(t *rapid.T, w *world, _ *auxData) bool {
		m := w.step.Matrix
		if m == nil || len(m.Setup) == 0 {
			return false
		}
		delete(m.Setup, rapid.SampledFrom(sortedKeys(m.Setup)).Draw(t, "d"))
		return true
	}},
	{"matrix-removed", true, func(t *rapid.T, w *world, _ *auxData) bool {
		if matrixEmpty(w.step.Matrix) {
			return false
		}
		w.step.Matrix = nil
		return true
	}},
	{"adjustment-named-dimension-change-next-to-anonymous", true, func(t *rapid.T, w *world, _ *auxData) bool {
		// an adjustment that carries the anonymous dimension AND named ones: the named values are content too
		m := w.step.Matrix
		if m == nil {
			return false
		}
		for _, a := range m.Adjustments {
			if _, anon := a.With[""]; anon && len(a.With) > 1 {
				for _, d := range sortedKeys(a.With) {
					if d != "" {
						a.With[d] += mut
						return true
					}
				}
			}
		}
		return false
	}},
	{"adjustment-with-change", true, func(t *rapid.T, w *world, _ *auxData) bool {
		m := w.step.Matrix
		if m == nil || len(m.Adjustments) == 0 {
			return false
		}
		a := m.Adjustments[rapid.IntRange(0, len(m.Adjustments)-1).Draw(t, "a")]
		if len(a.With) == 0 {
			return false
		}
		a.With[rapid.SampledFrom(sortedKeys(a.With)).Draw(t, "d")] += mut
		return true
	}},
	{"adjustment-skip-flip", true, func(t *rapid.T, w *world, _ *auxData) bool {
		m := w.step.Matrix
		if m == nil || len(m.Adjustments) == 0 {
			return false
		}
		a := m.Adjustments[rapid.IntRange(0, len(m.Adjustments)-1).Draw(t, "a")]
		switch s := a.Skip.(type) {
		case nil:
			a.Skip = rapid.SampledFrom([]any{true, "reason"}).Draw(t, "to")
		case bool:
			if s {
				a.Skip = rapid.SampledFrom([]any{nil, false}).Draw(t, "to")
			} else {
				a.Skip = rapid.SampledFrom([]any{true, "reason"}).Draw(t, "to")
			}
		default:
			a.Skip = rapid.SampledFrom([]any{nil, false}).Draw(t, "to")
		}
		return true
	}},
	{"adjustment-extra-change", true, func(t *rapid.T, w *world, _ *auxData) bool {
		m := w.step.Matrix
		if m == nil || len(m.Adjustments) == 0 {
			return false
		}
		a := m.Adjustments[rapid.IntRange(0, len(m.Adjustments)-1).Draw(t, "a")]
		if a.RemainingFields == nil {
			a.RemainingFields = map[string]any{}
		}
		a.RemainingFields["soft_fail"] = mut
		return true
	}},
	{"ordered-map-entry-removed-inside-signed-content", true, func(t *rapid.T, w *world, _ *auxData) bool {
		// Delete leaves the slot behind (no compaction while more than half the slots are live); Replace
		// onto another key vacates that key's slot: either way the entry is gone from the map
		var om *ordered.MapSA
		if len(w.step.Plugins) > 0 {
			if cfg, ok := w.step.Plugins[0].Config.(map[string]any); ok {
				om, _ = cfg["ordered"].(*ordered.MapSA)
			}
		}
		if om == nil && w.step.Matrix != nil {
			om, _ = w.step.Matrix.RemainingFields["ordered"].(*ordered.MapSA)
		}
		if om == nil || om.Len() < 4 {
			return false
		}
		if rapid.Bool().Draw(t, "viareplace") {
			v, _ := om.Get("ok0")
			om.Replace("ok0", "ok1", v)
		} else {
			om.Delete(fmt.Sprintf("ok%d", rapid.IntRange(0, om.Len()-1).Draw(t, "omdel")))
		}
		return true
	}},
	{"matrix-extra-key-change", true, func(t *rapid.T, w *world, _ *auxData) bool {
		// a key of the matrix itself next to setup / adjustments (also next to a plain value list)
		m := w.step.Matrix
		if m == nil {
			return false
		}
		if _, has := m.RemainingFields["extra"]; has && rapid.Bool().Draw(t, "dropextra") {
			delete(m.RemainingFields, "extra")
			return true
		}
		if m.RemainingFields == nil {
			m.RemainingFields = map[string]any{}
		}
		m.RemainingFields["extra"] = mut
		return true
	}},
	{"adjustment-add", true, func(t *rapid.T, w *world, _ *auxData) bool {
		m := w.step.Matrix
		if m == nil || len(m.Setup) == 0 {
			return false
		}
		with := pipeline.MatrixAdjustmentWith{}
		for d := range m.Setup {
			with[d] = "v"
		}
		m.Adjustments = append(m.Adjustments, &pipeline.MatrixAdjustment{With: with})
		return true
	}},
	// ---- repository URL
	{"repository-url-change", true, func(t *rapid.T, w *world, _ *auxData) bool { w.repo += "x"; return true }},
	{"repository-url-spelling-change", true, func(t *rapid.T, w *world, _ *auxData) bool {
		// the `.git` suffix or a trailing slash added or dropped: usually the same repository, not the same URL
		suf := rapid.SampledFrom([]string{".git", "/"}).Draw(t, "reposuffix")
		if strings.HasSuffix(w.repo, suf) {
			w.repo = strings.TrimSuffix(w.repo, suf)
		} else {
			w.repo += suf
		}
		return true
	}},
	// ---- verification env
	{"venv-signed-value-change", true, func(t *rapid.T, w *world, _ *auxData) bool {
		se := expectSigned(w)
		if len(se) == 0 {
			return false
		}
		w.venv[rapid.SampledFrom(se).Draw(t, "n")] += mut
		return true
	}},
	{"venv-signed-var-only-under-a-name-of-other-case", true, func(t *rapid.T, w *world, _ *auxData) bool {
		// the signed variable is gone; a variable whose name differs from it only in letter case holds
		// the signed value (names are case-sensitive: that is a different variable)
		var cased []string
		for _, n := range expectSigned(w) {
			if strings.ToUpper(n) != n || strings.ToLower(n) != n {
				cased = append(cased, n)
			}
		}
		if len(cased) == 0 {
			return false
		}
		n := rapid.SampledFrom(cased).Draw(t, "n")
		twin := strings.ToUpper(n)
		if twin == n || rapid.Bool().Draw(t, "lower") {
			if l := strings.ToLower(n); l != n {
				twin = l
			}
		}
		if _, clash := w.venv[twin]; clash || twin == n {
			return false
		}
		if _, shadow := w.step.Env[twin]; shadow {
			return false
		}
		w.venv[twin] = w.venv[n]
		delete(w.venv, n)
		return true
	}},
	{"venv-signed-var-removed", true, func(t *rapid.T, w *world, _ *auxData) bool {
		se := expectSigned(w)
		if len(se) == 0 {
			return false
		}
		delete(w.venv, rapid.SampledFrom(se).Draw(t, "n"))
		return true
	}},
	// ---- signature record
	{"sig-algorithm-replaced", true, func(t *rapid.T, w *world, _ *auxData) bool {
		alt := rapid.SampledFrom([]string{"EdDSA", "ES512", "PS512", "ES256", "none", "HS512", "", "eddsa"}).Draw(t, "alg")
		if alt == w.sig.Algorithm {
			return false
		}
		w.sig.Algorithm = alt
		return true
	}},
	{"sig-drop-mandatory-field", true, func(t *rapid.T, w *world, _ *auxData) bool {
		drop := rapid.SampledFrom([]string{"command", "env", "plugins", "matrix", "repository_url"}).Draw(t, "f")
		var nf []string
		for _, f := range w.sig.SignedFields {
			if f != drop {
				nf = append(nf, f)
			}
		}
		w.sig.SignedFields = nf
		return true
	}},
	{"sig-field-list-entry-overwritten-with-another-entry", true, func(t *rapid.T, w *world, _ *auxData) bool {
		// the list keeps its length; one entry now repeats another, so one field is no longer claimed
		f := w.sig.SignedFields
		if len(f) < 2 {
			return false
		}
		i := rapid.IntRange(0, len(f)-1).Draw(t, "overwritten")
		j := rapid.IntRange(0, len(f)-2).Draw(t, "with")
		if j >= i {
			j++
		}
		if f[i] == f[j] {
			return false
		}
		f[i] = f[j]
		return true
	}},
	{"sig-drop-env-field", true, func(t *rapid.T, w *world, _ *auxData) bool {
		se := signedEnvFields(w.sig)
		if len(se) == 0 {
			return false
		}
		drop := "env::" + rapid.SampledFrom(se).Draw(t, "n")
		var nf []string
		for _, f := range w.sig.SignedFields {
			if f != drop {
				nf = append(nf, f)
			}
		}
		w.sig.SignedFields = nf
		return true
	}},
	{"sig-add-env-field-for-unsigned-var", true, func(t *rapid.T, w *world, _ *auxData) bool {
		signed := map[string]bool{}
		for _, n := range signedEnvFields(w.sig) {
			signed[n] = true
		}
		var cand []string
		for _, n := range sortedKeys(w.venv) {
			if !signed[n] {
				cand = append(cand, n)
			}
		}
		cand = append(cand, "ABSENT_FROM_ENV"+mut)
		w.sig.SignedFields = append(w.sig.SignedFields, "env::"+rapid.SampledFrom(cand).Draw(t, "n"))
		sort.Strings(w.sig.SignedFields)
		return true
	}},
	{"sig-add-unknown-field", true, func(t *rapid.T, w *world, _ *auxData) bool {
		w.sig.SignedFields = append(w.sig.SignedFields, rapid.SampledFrom([]string{"label", "key", "cache", "Command", "commands", ""}).Draw(t, "f"))
		return true
	}},
	{"sig-fields-emptied", true, func(t *rapid.T, w *world, _ *auxData) bool { w.sig.SignedFields = nil; return true }},
	{"sig-value-from-other-step", true, func(t *rapid.T, w *world, aux *auxData) bool {
		if aux.otherSig == nil || aux.otherSig.Value == w.sig.Value {
			return false
		}
		w.sig.Value = aux.otherSig.Value
		return true
	}},
	{"sig-value-made-with-other-key", true, func(t *rapid.T, w *world, aux *auxData) bool {
		o := keys.Other(w.kp)
		sf := &signature.CommandStepWithInvariants{CommandStep: *w.step, RepositoryURL: w.repo}
		s, err := signature.Sign(aux.ctx, o.Priv, sf, signature.WithEnv(w.penv))
		if err != nil {
			return false
		}
		w.sig.Value = s.Value
		return true
	}},
	{"sig-bitflip-signature-bytes", true, func(t *rapid.T, w *world, _ *auxData) bool {
		parts := strings.Split(w.sig.Value, ".")
		if len(parts) != 3 {
			return false
		}
		b, err := base64.RawURLEncoding.DecodeString(parts[2])
		if err != nil || len(b) == 0 {
			return false
		}
		flipBit(t, b)
		parts[2] = base64.RawURLEncoding.EncodeToString(b)
		w.sig.Value = strings.Join(parts, ".")
		return true
	}},
	{"sig-bitflip-protected-header", true, func(t *rapid.T, w *world, _ *auxData) bool {
		parts := strings.Split(w.sig.Value, ".")
		if len(parts) != 3 {
			return false
		}
		b, err := base64.RawURLEncoding.DecodeString(parts[0])
		if err != nil || len(b) == 0 {
			return false
		}
		flipBit(t, b)
		parts[0] = base64.RawURLEncoding.EncodeToString(b)
		w.sig.Value = strings.Join(parts, ".")
		return true
	}},
	{"sig-value-truncated", true, func(t *rapid.T, w *world, _ *auxData) bool {
		if len(w.sig.Value) < 4 {
			return false
		}
		w.sig.Value = w.sig.Value[:len(w.sig.Value)-rapid.IntRange(1, 3).Draw(t, "n")]
		return true
	}},
	// ---- key
	{"key-other-same-kind-same-kid", true, func(t *rapid.T, w *world, _ *auxData) bool { w.vkey = keys.Other(w.kp).Pub; return true }},
	{"key-other-kind", true, func(t *rapid.T, w *world, _ *auxData) bool {
		var cand []keys.Pair
		for _, p := range keys.Pool() {
			if p.Kind != w.kp.Kind {
				cand = append(cand, p)
			}
		}
		w.vkey = rapid.SampledFrom(cand).Draw(t, "k").Pub
		return true
	}},
	{"key-empty-set", true, func(t *rapid.T, w *world, _ *auxData) bool {
		// a key set holding no key at all is not the signing key either
		w.vkey = jwk.NewSet()
		return true
	}},
	{"key-set-of-other-keys", true, func(t *rapid.T, w *world, _ *auxData) bool {
		// several keys, none of them the signing key
		set := jwk.NewSet()
		for _, p := range keys.Pool() {
			if p.PubSet == nil || p.Kind == w.kp.Kind {
				continue
			}
			k, _ := p.PubSet.Key(0)
			_ = set.AddKey(k)
		}
		if o := keys.Other(w.kp); o.PubSet != nil {
			k, _ := o.PubSet.Key(0)
			_ = set.AddKey(k)
		}
		w.vkey = set
		return true
	}},
	{"penv-name-moves-into-the-namespace", true, func(t *rapid.T, w *world, _ *auxData) bool {
		// the variable X is renamed to the variable literally called "env::X" (the text of X's own
		// field name): another variable, so the signed X is missing and verification must fail
		for _, k := range sortedKeys(w.venv) {
			if _, signed := w.penv[k]; !signed {
				continue
			}
			if _, shadowed := w.step.Env[k]; shadowed {
				continue
			}
			w.venv["env::"+k] = w.venv[k]
			delete(w.venv, k)
			return true
		}
		return false
	}},

	// ---- benign: unsigned data or documented-equivalent spellings; verification must still succeed
	{"benign-label-change", false, func(t *rapid.T, w *world, _ *auxData) bool { w.step.Label += mut; return true }},
	{"benign-key-change", false, func(t *rapid.T, w *world, _ *auxData) bool { w.step.Key += mut; return true }},
	{"benign-cache-change", false, func(t *rapid.T, w *world, _ *auxData) bool {
		w.step.Cache = &pipeline.Cache{Paths: []string{mut}}
		return true
	}},
	{"benign-unknown-field-change", false, func(t *rapid.T, w *world, _ *auxData) bool {
		if w.step.RemainingFields == nil {
			w.step.RemainingFields = map[string]any{}
		}
		w.step.RemainingFields["agents"] = mut
		return true
	}},
	{"benign-extra-verification-env-var", false, func(t *rapid.T, w *world, _ *auxData) bool {
		w.venv["BUILDKITE_EXTRA"+mut] = "x"
		return true
	}},
	{"benign-shadowed-pipeline-var-changes", false, func(t *rapid.T, w *world, _ *auxData) bool {
		for _, n := range sortedKeys(w.step.Env) {
			if _, ok := w.penv[n]; ok {
				w.venv[n] += mut
				return true
			}
		}
		return false
	}},
	{"benign-plugin-source-respelled-canonical", false, func(t *rapid.T, w *world, _ *auxData) bool {
		// (the canonical spelling comes from the generator's rule, not from the library)
		for _, p := range w.step.Plugins {
			if fs, known := w.canon[p.Source]; known && fs != p.Source {
				p.Source = fs
				return true
			}
		}
		return false
	}},
	{"benign-nil-vs-empty-containers", false, func(t *rapid.T, w *world, _ *auxData) bool {
		did := false
		if len(w.step.Env) == 0 {
			if w.step.Env == nil {
				w.step.Env = map[string]string{}
			} else {
				w.step.Env = nil
			}
			did = true
		}
		if len(w.step.Plugins) == 0 {
			if w.step.Plugins == nil {
				w.step.Plugins = pipeline.Plugins{}
			} else {
				w.step.Plugins = nil
			}
			did = true
		}
		if matrixEmpty(w.step.Matrix) {
			if w.step.Matrix == nil {
				w.step.Matrix = &pipeline.Matrix{}
			} else {
				w.step.Matrix = nil
			}
			did = true
		}
		for _, p := range w.step.Plugins {
			if cfgEmpty(p.Config) {
				if p.Config == nil {
					p.Config = map[string]any{}
				} else {
					p.Config = nil
				}
				did = true
			}
		}
		return did
	}},
	{"benign-signed-fields-reordered", false, func(t *rapid.T, w *world, _ *auxData) bool {
		// not demanded to fail by the statement; it happens to be harmless - asserting success guards the harness itself
		if len(w.sig.SignedFields) < 2 {
			return false
		}
		f := w.sig.SignedFields
		f[0], f[len(f)-1] = f[len(f)-1], f[0]
		return true
	}},
}

var rec = ev.New("TestPropMutationsBreakVerification", "command steps built as structs (S command text, step env, plugins with nested configs from the documented source forms, matrices with adjustments and extras, unsigned label/key/cache/unknown fields), pipeline env, repository URL, key kind in {EdDSA, ES512, PS512, ES256 signer}; each case signs, checks the positive control (verification env = pipeline env + unrelated variables, public half only), applies ONE mutation from a catalogue of 48 semantic mutations (must fail) or 9 benign ones (must still verify); non-trivial = semantic mutation applied to a step with >= 1 plugin or matrix or step env; distinct by hash of (step, mutation, key kind)")

func TestPropMutationsBreakVerification(t *testing.T) {
	ctx := context.Background()
	pool := keys.Pool()
	byName := map[string]int{}
	ev.Check(t, 2500, 100000, func(t *rapid.T) {
		g := sgen.New(t, sgen.Opts{BigMaps: rapid.IntRange(0, 3).Draw(t, "big") == 0})
		step, canonMap := g.Step()
		penv := g.EnvMap("penv", 4)
		repo := g.RepoURL()
		if rapid.IntRange(0, 3).Draw(t, "orderedinside") == 0 {
			// signed content may hold order-preserving maps (every mapping below a matrix's or an
			// adjustment's extra keys is one after a parse; a program may put one into a plugin config)
			om := ordered.NewMap[string, any](0)
			for i, c := 0, rapid.IntRange(4, 7).Draw(t, "omn"); i < c; i++ {
				om.Set(fmt.Sprintf("ok%d", i), g.Str("omv"))
			}
			placed := false
			if len(step.Plugins) > 0 {
				if cfg, ok := step.Plugins[0].Config.(map[string]any); ok && cfg != nil && rapid.Bool().Draw(t, "omincfg") {
					cfg["ordered"] = om
					placed = true
				}
			}
			if !placed {
				if step.Matrix == nil {
					step.Matrix = &pipeline.Matrix{Setup: pipeline.MatrixSetup{"": []string{"a", "b"}}}
				}
				if step.Matrix.RemainingFields == nil {
					step.Matrix.RemainingFields = map[string]any{}
				}
				step.Matrix.RemainingFields["ordered"] = om
			}
		}
		if rapid.IntRange(0, 3).Draw(t, "fieldnamevars") == 0 {
			// pipeline variables that are NAMED like the signed step fields, often holding the very value of
			// that field: the env:: namespace is what keeps the two apart
			for _, n := range []string{"command", "repository_url", "env", "plugins", "matrix"} {
				switch rapid.IntRange(0, 2).Draw(t, "fieldnamevar") {
				case 0:
					continue
				case 1:
					penv[n] = map[string]string{"command": step.Command, "repository_url": repo}[n]
				default:
					penv[n] = g.Str("fieldnamevalue")
				}
				delete(step.Env, n)
			}
		}
		// the key KIND first (the crypto.Signer path is its own branch of Sign and Verify), weighted by
		// cost: EdDSA and the ES256 signer are cheap, PS512 is slow
		kind := rapid.SampledFrom([]string{"EdDSA", "EdDSA", "EdDSA", "ES256-signer", "ES256-signer", "ES512", "ES512", "PS512"}).Draw(t, "keykind")
		var ofKind []keys.Pair
		for _, p := range pool {
			if p.Kind == kind {
				ofKind = append(ofKind, p)
			}
		}
		kp := rapid.SampledFrom(ofKind).Draw(t, "key")
		sf := &signature.CommandStepWithInvariants{CommandStep: *step, RepositoryURL: repo}
		var sig *pipeline.Signature
		var err error
		if rapid.IntRange(0, 3).Draw(t, "viasignsteps") == 0 {
			// the signature as a pipeline upload makes it: SignSteps over a list in which this step comes
			// after another one (top level, or inside a group) whose own env shadows some pipeline variables
			earlier, _ := g.Step()
			if earlier.Env == nil {
				earlier.Env = map[string]string{}
			}
			for _, n := range sortedKeys(penv) {
				if rapid.Bool().Draw(t, "earliershadows") {
					earlier.Env[n] = "shadowed by the earlier step"
				}
			}
			mine := sgen.CopyStep(step)
			list := pipeline.Steps{earlier, mine}
			if rapid.Bool().Draw(t, "ingroup") {
				name := "g"
				list = pipeline.Steps{&pipeline.GroupStep{Group: &name, Steps: pipeline.Steps{earlier}}, &pipeline.GroupStep{Group: &name, Steps: pipeline.Steps{mine}}}
			}
			if err = signature.SignSteps(ctx, list, kp.Priv, repo, signature.WithEnv(penv)); err == nil {
				sig = mine.Signature
			}
			rec.Class("signed-through-SignSteps-after-a-step-that-shadows-pipeline-variables")
		} else {
			sig, err = signature.Sign(ctx, kp.Priv, sf, signature.WithEnv(penv))
		}
		if err != nil || sig == nil {
			t.Fatalf("signing failed: %v", err)
		}
		venv := sgen.CopyStrMap(penv)
		for i, n := 0, rapid.IntRange(0, 2).Draw(t, "nunrelated"); i < n; i++ {
			venv[fmt.Sprintf("UNRELATED_%d", i)] = "u"
		}
		w := &world{step: sgen.CopyStep(step), canon: canonMap, venv: venv, penv: penv, repo: repo, signedStepEnv: sgen.CopyStrMap(step.Env),
			sig: &pipeline.Signature{Algorithm: sig.Algorithm, SignedFields: append([]string{}, sig.SignedFields...), Value: sig.Value}, kp: kp, vkey: kp.Pub}
		// positive control
		if err := w.verify(ctx); err != nil {
			t.Fatalf("positive control failed: untouched signature does not verify: %v\nstep: %s", err, gt.Show(canon.Step(step, canon.Raw)))
		}
		aux := &auxData{ctx: ctx, g: g}
		// a valid signature of a different step (same key, same env)
		other := sgen.CopyStep(step)
		other.Command += " && other"
		if osig, err := signature.Sign(ctx, kp.Priv, &signature.CommandStepWithInvariants{CommandStep: *other, RepositoryURL: repo}, signature.WithEnv(penv)); err == nil {
			aux.otherSig = osig
		}
		// draw a mutation that applies
		order := rapid.Permutation(seq(len(catalogue))).Draw(t, "mutorder")
		var m *mutation
		for _, i := range order[:min(len(order), 12)] {
			if catalogue[i].apply(t, w, aux) {
				m = &catalogue[i]
				break
			}
			// a mutation that reported "not applicable" must not have changed anything; rebuild to be safe
			w = &world{step: sgen.CopyStep(step), canon: canonMap, venv: sgen.CopyStrMap(venv), penv: penv, repo: repo, signedStepEnv: sgen.CopyStrMap(step.Env),
				sig: &pipeline.Signature{Algorithm: sig.Algorithm, SignedFields: append([]string{}, sig.SignedFields...), Value: sig.Value}, kp: kp, vkey: kp.Pub}
		}
		if m == nil {
			rec.Excluded("no applicable mutation among the first 12 drawn")
			return
		}
		verr := w.verify(ctx)
		if verr != nil && strings.HasPrefix(verr.Error(), "PANIC") {
			t.Fatalf("%v (mutation %s)", verr, m.name)
		}
		if m.semantic && verr == nil {
			t.Fatalf("mutation %q applied but verification still succeeds\noriginal step: %s\nmutated step:  %s\nsigned env %v, verification env %v\nrepo %q -> %q\nsignature fields %q -> %q\nalg %q -> %q",
				m.name, gt.Show(canon.Step(step, canon.Raw)), gt.Show(canon.Step(w.step, canon.Raw)), penv, w.venv, repo, w.repo, sig.SignedFields, w.sig.SignedFields, sig.Algorithm, w.sig.Algorithm)
		}
		if !m.semantic && verr != nil {
			t.Fatalf("benign mutation %q (unsigned data / equivalent spelling) broke verification: %v\noriginal step: %s\nmutated step:  %s", m.name, verr, gt.Show(canon.Step(step, canon.Raw)), gt.Show(canon.Step(w.step, canon.Raw)))
		}
		byName[m.name]++
		rich := len(step.Plugins) > 0 || !matrixEmpty(step.Matrix) || len(step.Env) > 0
		nt := m.semantic && rich
		rec.Case(ev.Hash(gt.Show(canon.Step(step, canon.Raw)), m.name, kp.Kind, penv, repo), nt, "mutation="+m.name, "key="+kp.Kind)
		rec.MaybeSample(nt, func() any {
			return map[string]any{"mutation": m.name, "key": kp.Kind, "step": gt.Show(canon.Step(step, canon.Raw)), "pipeline_env": penv, "verify_error": fmt.Sprint(verr)}
		})
	})
}

func seq(n int) []int {
	s := make([]int, n)
	for i := range s {
		s[i] = i
	}
	return s
}

// ---------------------------------------------------------------------------
// Numbers JSON cannot express (.inf, -.inf, .nan are legal YAML and reach plugin configs as float64s).
// The payload is JSON, so such a step either cannot be signed at all - or, if a signature is made,
// it must bind the value like any other: replacing it by another such number or by null is a change.

var recNonFinite = ev.New("TestNonFiniteNumbersAreNotSignedAsSomethingElse", "command steps whose plugin config holds +Inf, -Inf or NaN at the top level, inside a list or inside a nested mapping x key kind in {EdDSA, ES256 signer}: Sign must refuse the step, or else every replacement of that value by another non-finite number or by null must make Verify fail; enumerated; non-trivial = all rows; distinct by construction")

func TestNonFiniteNumbersAreNotSignedAsSomethingElse(t *testing.T) {
	ev.SkipIfReplayingOther(t)
	ctx := context.Background()
	pool := keys.Pool()
	vals := map[string]any{"+Inf": math.Inf(1), "-Inf": math.Inf(-1), "NaN": math.NaN(), "null": nil}
	build := func(where int, v any) *pipeline.CommandStep {
		cfg := map[string]any{"image": "alpine"}
		switch where {
		case 0:
			cfg["timeout"] = v
		case 1:
			cfg["limits"] = []any{1, v, "x"}
		default:
			cfg["nested"] = map[string]any{"deep": map[string]any{"timeout": v}}
		}
		return &pipeline.CommandStep{Command: "echo", Plugins: pipeline.Plugins{{Source: "docker#v1", Config: cfg}}}
	}
	for _, kp := range []keys.Pair{pool[0], pool[1]} {
		for where := 0; where < 3; where++ {
			for name, v := range vals {
				if name == "null" {
					continue
				}
				sf := &signature.CommandStepWithInvariants{CommandStep: *build(where, v), RepositoryURL: "repo"}
				sig, err := signature.Sign(ctx, kp.Priv, sf)
				if err != nil {
					recNonFinite.Case(ev.Hash(kp.Kind, where, name), true, "outcome=sign-refuses")
					continue
				}
				for other, w := range vals {
					if other == name {
						continue
					}
					sf2 := &signature.CommandStepWithInvariants{CommandStep: *build(where, w), RepositoryURL: "repo"}
					if verr := signature.Verify(ctx, sig, kp.Pub, sf2); verr == nil {
						t.Fatalf("a signature made over a plugin config holding %s (position %d, key %s) still verifies after the value became %s", name, where, kp.Kind, other)
					}
				}
				recNonFinite.Case(ev.Hash(kp.Kind, where, name), true, "outcome=signed-and-bound")
			}
		}
	}
	recNonFinite.Exhaustive()
}
