// C13 - Parse is total: no panic or hang; a complete result unless it hard-fails.
package c13

import (
	"bytes"
	"encoding/json"
	"errors"
	"fmt"
	"math"
	"os"
	"path/filepath"
	"strings"
	"testing"
	"time"

	pipeline "github.com/buildkite/go-pipeline"
	"github.com/buildkite/go-pipeline/ordered"
	"github.com/buildkite/go-pipeline/warning"
	"gopkg.in/yaml.v3"
	"pgregory.net/rapid"

	"verif/harness/internal/canon"
	"verif/harness/internal/doc"
	"verif/harness/internal/ev"
	"verif/harness/internal/gt"
	"verif/harness/internal/probe"
	"verif/harness/internal/strs"
)

func TestMain(m *testing.M) { ev.Main(m) }

const expansionBound = 20000

type outcome struct {
	skipped    string // non-empty: input outside the bounded domain
	usable     bool
	steps      int
	unknown    int
	hardErr    bool
	knownF7    bool
	knownF14   bool
	groupDepth int
}

// countLeaves counts the leaf (non-warning) errors of a warning tree.
func countLeaves(err error) int {
	if err == nil {
		return 0
	}
	if w := warning.As(err); w != nil {
		n := 0
		for _, e := range w.Unwrap() {
			n += countLeaves(e)
		}
		return n
	}
	// other multi-errors / wrapped errors
	switch u := err.(type) {
	case interface{ Unwrap() []error }:
		n := 0
		for _, e := range u.Unwrap() {
			n += countLeaves(e)
		}
		if n > 0 {
			return n
		}
	case interface{ Unwrap() error }:
		if inner := u.Unwrap(); inner != nil {
			if n := countLeaves(inner); n > 0 {
				return n
			}
		}
	}
	return 1
}

func hasNonFinite(v any) bool {
	switch t := v.(type) {
	case float64:
		return math.IsNaN(t) || math.IsInf(t, 0)
	case []any:
		for _, x := range t {
			if hasNonFinite(x) {
				return true
			}
		}
	case map[string]any:
		for _, x := range t {
			if hasNonFinite(x) {
				return true
			}
		}
	case *ordered.MapSA:
		found := false
		t.Range(func(_ string, x any) error {
			if hasNonFinite(x) {
				found = true
			}
			return nil
		})
		return found
	}
	return false
}

// checkSteps compares the parsed steps with the entries of the input step
// sequence (as decoded by ordered.DecodeYAML, which C07 vouches for).
func checkSteps(got pipeline.Steps, entries []any, depth int, oc *outcome) error {
	if got == nil {
		return fmt.Errorf("step list is nil (depth %d)", depth)
	}
	if len(got) != len(entries) {
		return fmt.Errorf("step list has %d steps for %d input entries (depth %d)", len(got), len(entries), depth)
	}
	if depth > oc.groupDepth {
		oc.groupDepth = depth
	}
	for i, s := range got {
		if s == nil {
			return fmt.Errorf("step %d is nil (depth %d)", i, depth)
		}
		entry := entries[i]
		oc.steps++
		switch e := entry.(type) {
		case string:
			wantKind, _ := kindOfScalar(e)
			switch st := s.(type) {
			case *pipeline.WaitStep:
				if wantKind != doc.KWait || st.Scalar != e {
					return fmt.Errorf("scalar step %q became a wait step (scalar %q)", e, st.Scalar)
				}
			case *pipeline.InputStep:
				if wantKind != doc.KInput || st.Scalar != e {
					return fmt.Errorf("scalar step %q became an input step (scalar %q)", e, st.Scalar)
				}
			case *pipeline.UnknownStep:
				oc.unknown++
				if wantKind != doc.KUnknown {
					return fmt.Errorf("recognised scalar step %q became an unknown step", e)
				}
				if st.Contents != any(e) {
					return fmt.Errorf("unknown scalar step %q not kept verbatim: %#v", e, st.Contents)
				}
			default:
				return fmt.Errorf("scalar step %q became %T", e, s)
			}
		case *ordered.MapSA:
			var typ any
			hasType := false
			if e != nil {
				typ, hasType = e.Get("type")
			}
			wantKind := ""
			if ts, ok := typ.(string); ok || !hasType {
				wantKind = kindOfMap(e, ts, hasType)
			}
			gotKind := kindOf(s)
			if gotKind == doc.KUnknown {
				oc.unknown++
				u := s.(*pipeline.UnknownStep)
				c, ok := u.Contents.(*ordered.MapSA)
				// compared with the harness's own comparator: ordered.Equal says NaN != NaN
				if !ok || gt.Diff(canon.Value(e), canon.Value(c), gt.Opt{}) != "" {
					return fmt.Errorf("step %d fell back to an unknown step but does not hold the input mapping verbatim", i)
				}
				// verbatim includes the shape: every mapping inside is still an order-preserving one, in the
				// order written (a half-finished decode may have converted parts of the entry in place)
				if where := orderLost(canon.Value(e), canon.Value(c), "$"); where != "" {
					return fmt.Errorf("step %d fell back to an unknown step whose contents are not the input mapping verbatim: at %s a mapping lost its order-preserving form or its key order", i, where)
				}
				continue
			}
			if wantKind != "" && gotKind != wantKind {
				return fmt.Errorf("step %d came out as %s, the rule table says %s", i, gotKind, wantKind)
			}
			// a step accepted as a known kind is complete: every key of the entry that the kind
			// does not model is held verbatim (a partially decoded step would have lost them)
			if err := unknownKeysKept(s, e); err != nil {
				return fmt.Errorf("step %d (%s): %w", i, gotKind, err)
			}
			if g, ok := s.(*pipeline.GroupStep); ok {
				var sub []any
				if sv, has := e.Get("steps"); has && sv != nil {
					l, ok := sv.([]any)
					if !ok {
						return fmt.Errorf("group step %d: input `steps` is %T but the step was accepted as a group", i, sv)
					}
					sub = l
				}
				if err := checkSteps(g.Steps, sub, depth+1, oc); err != nil {
					return fmt.Errorf("inside group step %d: %w", i, err)
				}
			}
		default:
			return fmt.Errorf("input entry %d is %T, yet Parse returned a usable result", i, entry)
		}
	}
	return nil
}

// orderLost walks two equal trees and reports the first mapping that is order-preserving in a but not
// in b, or whose keys stand in another order.
func orderLost(a, b *gt.Node, path string) string {
	if a == nil || b == nil || a.Kind != b.Kind {
		return ""
	}
	switch a.Kind {
	case gt.Map:
		if a.Ordered {
			if !b.Ordered || len(a.Keys) != len(b.Keys) {
				return path
			}
			for i := range a.Keys {
				if a.Keys[i] != b.Keys[i] {
					return path
				}
			}
		}
		for i, k := range a.Keys {
			if j := indexOf(b.Keys, k); j >= 0 {
				if w := orderLost(a.Vals[i], b.Vals[j], path+"."+k); w != "" {
					return w
				}
			}
		}
	case gt.Seq:
		for i := range a.Items {
			if i < len(b.Items) {
				if w := orderLost(a.Items[i], b.Items[i], fmt.Sprintf("%s[%d]", path, i)); w != "" {
					return w
				}
			}
		}
	}
	return ""
}

func indexOf(xs []string, x string) int {
	for i, y := range xs {
		if y == x {
			return i
		}
	}
	return -1
}

// consumed returns the keys of entry e that a step of this kind consumes into typed fields
// (primary keys, or the first present alias when the primary is absent - the C16 rule).
func consumed(e *ordered.MapSA, fixed []string, aliasGroups [][]string) map[string]bool {
	out := map[string]bool{}
	for _, k := range fixed {
		out[k] = true
	}
	for _, g := range aliasGroups {
		for _, k := range g {
			if e.Contains(k) {
				out[k] = true
				break
			}
		}
	}
	return out
}

func unknownKeysKept(s pipeline.Step, e *ordered.MapSA) error {
	var held map[string]any
	var modelled map[string]bool
	switch t := s.(type) {
	case *pipeline.CommandStep:
		held = t.RemainingFields
		modelled = consumed(e, []string{"command", "commands", "plugins", "env", "signature", "matrix", "cache"}, [][]string{{"key", "id", "identifier"}, {"label", "name"}})
	case *pipeline.GroupStep:
		held = t.RemainingFields
		modelled = consumed(e, []string{"steps"}, [][]string{{"key", "id", "identifier"}, {"group", "label", "name"}})
	case *pipeline.WaitStep:
		held = t.Contents
	case *pipeline.InputStep:
		held = t.Contents
	case *pipeline.TriggerStep:
		held = t.Contents
	default:
		return nil
	}
	var err error
	n := 0
	e.Range(func(k string, v any) error {
		if modelled[k] {
			return nil
		}
		n++
		got, ok := held[k]
		if !ok {
			err = fmt.Errorf("input key %q is not held by the parsed step", k)
			return err
		}
		if d := gt.Diff(canon.Value(v), canon.Value(got), gt.Opt{}); d != "" {
			err = fmt.Errorf("input key %q changed: %s", k, d)
			return err
		}
		return nil
	})
	if err == nil && len(held) != n {
		err = fmt.Errorf("parsed step holds %d unknown keys, the input entry has %d", len(held), n)
	}
	return err
}

func kindOfScalar(s string) (string, bool) {
	switch s {
	case "wait", "waiter":
		return doc.KWait, true
	case "block", "input", "manual":
		return doc.KInput, true
	}
	return doc.KUnknown, false
}

func kindOfMap(e *ordered.MapSA, typ string, hasType bool) string {
	if hasType {
		switch typ {
		case "command", "script":
			return doc.KCommand
		case "wait", "waiter":
			return doc.KWait
		case "block", "input", "manual":
			return doc.KInput
		case "trigger":
			return doc.KTrigger
		case "group":
			return doc.KGroup
		}
		return doc.KUnknown
	}
	has := func(k string) bool { return e != nil && e.Contains(k) }
	switch {
	case has("command") || has("commands") || has("plugins"):
		return doc.KCommand
	case has("wait") || has("waiter"):
		return doc.KWait
	case has("block") || has("input") || has("manual"):
		return doc.KInput
	case has("trigger"):
		return doc.KTrigger
	case has("group"):
		return doc.KGroup
	}
	return doc.KUnknown
}

func kindOf(s pipeline.Step) string {
	switch s.(type) {
	case *pipeline.CommandStep:
		return doc.KCommand
	case *pipeline.WaitStep:
		return doc.KWait
	case *pipeline.InputStep:
		return doc.KInput
	case *pipeline.TriggerStep:
		return doc.KTrigger
	case *pipeline.GroupStep:
		return doc.KGroup
	case *pipeline.UnknownStep:
		return doc.KUnknown
	}
	return fmt.Sprintf("%T", s)
}

// checkParse is the oracle shared by the fuzz target, the generated documents and the corpus.
func checkParse(data []byte) (oc outcome, err error) {
	// bound the expansion size first (the statement bounds it)
	var node yaml.Node
	if yerr := yaml.NewDecoder(bytes.NewReader(data)).Decode(&node); yerr == nil {
		if sz, cyclic := doc.ExpandedSize(&node, expansionBound); sz > expansionBound && !cyclic {
			oc.skipped = "alias expansion larger than the bound"
			return oc, nil
		}
		if len(data) > 1<<20 {
			oc.skipped = "input larger than 1 MiB"
			return oc, nil
		}
	}
	var p *pipeline.Pipeline
	var perr error
	start := time.Now()
	func() {
		defer func() {
			if r := recover(); r != nil {
				err = fmt.Errorf("Parse panicked: %v", r)
			}
		}()
		p, perr = pipeline.Parse(bytes.NewReader(data))
	}()
	if err != nil {
		return oc, err
	}
	if d := time.Since(start); d > 10*time.Second {
		return oc, fmt.Errorf("Parse took %v on an input of bounded expansion", d)
	}
	if perr != nil && !warning.Is(perr) {
		oc.hardErr = true
		return oc, nil // a hard error: nothing else is promised
	}
	oc.usable = true
	if p == nil {
		return oc, fmt.Errorf("usable result (err=%v) but the pipeline is nil", perr)
	}
	if p.Steps == nil {
		return oc, fmt.Errorf("usable result but Steps is nil (err=%v)", perr)
	}
	// the input step sequence
	top, derr := ordered.DecodeYAML(&node)
	if derr != nil {
		return oc, fmt.Errorf("Parse returned a usable result but the document does not decode: %v", derr)
	}
	var entries []any
	switch t := top.(type) {
	case []any:
		entries = t
	case *ordered.MapSA:
		if sv, ok := t.Get("steps"); ok && sv != nil {
			l, ok := sv.([]any)
			if !ok {
				return oc, fmt.Errorf("`steps` is %T but Parse returned a usable result", sv)
			}
			entries = l
		}
	default:
		return oc, fmt.Errorf("document root is %T but Parse returned a usable result", top)
	}
	if cerr := checkSteps(p.Steps, entries, 0, &oc); cerr != nil {
		return oc, cerr
	}
	if oc.unknown > 0 && perr == nil {
		return oc, fmt.Errorf("%d step(s) fell back to unknown steps but no warning was returned", oc.unknown)
	}
	if n := countLeaves(perr); oc.unknown > n {
		return oc, fmt.Errorf("%d unknown steps but the warning reports only %d problem(s): %v", oc.unknown, n, perr)
	}
	// marshalling succeeds
	var merr error
	func() {
		defer func() {
			if r := recover(); r != nil {
				merr = fmt.Errorf("json.Marshal panicked: %v", r)
			}
		}()
		_, merr = json.Marshal(p)
	}()
	if merr != nil {
		var uv *json.UnsupportedValueError
		if ev.Known("F7") && errors.As(merr, &uv) && pipelineHasNonFinite(p) {
			oc.knownF7 = true
		} else {
			return oc, fmt.Errorf("json.Marshal of a usable result failed: %v", merr)
		}
	}
	func() {
		defer func() {
			if r := recover(); r != nil {
				merr = fmt.Errorf("yaml.Marshal panicked: %v", r)
			}
		}()
		_, merr = yaml.Marshal(p)
	}()
	if merr != nil && !oc.knownF7 {
		if ev.Known("F14") && doc.HasString(canon.Pipeline(p, canon.Raw), func(s string) bool { return !strs.YAMLLegOK(s) }) {
			oc.knownF14 = true
		} else {
			return oc, fmt.Errorf("yaml.Marshal of a usable result failed: %v", merr)
		}
	}
	return oc, nil
}

func pipelineHasNonFinite(p *pipeline.Pipeline) bool {
	found := hasNonFinite(p.RemainingFields)
	var walk func(ss pipeline.Steps)
	walk = func(ss pipeline.Steps) {
		for _, s := range ss {
			switch t := s.(type) {
			case *pipeline.CommandStep:
				found = found || hasNonFinite(t.RemainingFields)
				for _, pl := range t.Plugins {
					found = found || hasNonFinite(pl.Config)
				}
				if t.Matrix != nil {
					found = found || hasNonFinite(t.Matrix.RemainingFields)
					for _, a := range t.Matrix.Adjustments {
						if a != nil {
							found = found || hasNonFinite(a.RemainingFields) || hasNonFinite(a.Skip)
						}
					}
				}
				if t.Cache != nil {
					found = found || hasNonFinite(t.Cache.RemainingFields)
				}
			case *pipeline.WaitStep:
				found = found || hasNonFinite(t.Contents)
			case *pipeline.InputStep:
				found = found || hasNonFinite(t.Contents)
			case *pipeline.TriggerStep:
				found = found || hasNonFinite(t.Contents)
			case *pipeline.GroupStep:
				found = found || hasNonFinite(t.RemainingFields)
				walk(t.Steps)
			case *pipeline.UnknownStep:
				found = found || hasNonFinite(t.Contents)
			}
		}
	}
	walk(p.Steps)
	return found
}

// ---------------------------------------------------------------------------
// (ii) grammar-generated documents with injected type errors

func allNodes(n *yaml.Node, out *[]*yaml.Node, seen map[*yaml.Node]bool) {
	if n == nil || seen[n] {
		return
	}
	seen[n] = true
	*out = append(*out, n)
	for _, c := range n.Content {
		allNodes(c, out, seen)
	}
}

var wrongShapes = []func() *yaml.Node{
	func() *yaml.Node { return doc.Plain("null") },
	func() *yaml.Node { return doc.Plain("5") },
	func() *yaml.Node { return doc.Plain("true") },
	func() *yaml.Node { return doc.Plain("1.5") },
	func() *yaml.Node { return doc.Plain("2001-01-01") },
	func() *yaml.Node { return doc.Plain(".nan") },
	func() *yaml.Node { return doc.Plain("18446744073709551615") },
	func() *yaml.Node { return doc.StrNode("str") },
	func() *yaml.Node { return doc.SeqNode(true) },
	func() *yaml.Node { return doc.SeqNode(true, doc.Plain("1"), doc.SeqNode(true, doc.StrNode("x"))) },
	func() *yaml.Node { return doc.MapNode(true) },
	func() *yaml.Node {
		return doc.MapNode(true, doc.StrNode("k"), doc.MapNode(true, doc.StrNode("k2"), doc.Plain("~")))
	},
	func() *yaml.Node { return doc.SeqNode(true, doc.Plain("null")) },
	func() *yaml.Node { return doc.MapNode(true, doc.StrNode("type"), doc.Plain("5")) },
	func() *yaml.Node {
		return doc.MapNode(true, doc.StrNode("group"), doc.Plain("~"), doc.StrNode("steps"), doc.StrNode("oops"))
	},
	func() *yaml.Node {
		return doc.MapNode(true, doc.StrNode("group"), doc.StrNode("g"), doc.StrNode("steps"), doc.SeqNode(true, doc.StrNode("mystery"), doc.Plain("7")))
	},
	func() *yaml.Node {
		return doc.MapNode(true, doc.StrNode("command"), doc.MapNode(true, doc.StrNode("a"), doc.Plain("1")))
	},
}

var recGen = ev.New("TestPropInjectedTypeErrors", "grammar-generated pipeline documents (all step kinds incl. unknown steps, groups, anchors/merges) with 0-4 injected type errors: the value at a random position (any node of the tree: step entries, typed fields, kind keys, `type`, `steps`, plugin items, matrix/cache/signature members, mapping keys' values) replaced by a value of another shape (null, int, bool, float, timestamp, .nan, uint64, string, list, nested list, mapping, [null], {type: 5}, group with scalar steps, group holding unknown / integer steps ...); oracle: no panic, prompt return, and if the result is usable: Steps non-nil, exactly one non-nil step per input entry in order and recursively inside groups, fallbacks hold the entry verbatim, known kinds follow the rule table, unknown steps are covered by the warning, json/yaml marshalling succeeds (except known finding F7); non-trivial = usable result with >= 1 step and >= 1 injection; distinct by hash of the text")

func TestPropInjectedTypeErrors(t *testing.T) {
	ev.Check(t, 2500, 30000, func(t *rapid.T) {
		g := doc.NewG(t, doc.Config{Anchors: rapid.IntRange(0, 2).Draw(t, "anchors") == 0, Timestamps: true, BigNums: true, Floats: true,
			BigMaps: rapid.IntRange(0, 3).Draw(t, "big") == 0, EmptyKey: true, MergeKeyStr: true, EmptyMatrix: true, UnknownSteps: true, BothCommands: true, Signature: true,
			// every key the model structs know under their Go field name (`disabled` in a cache mapping) and
			// collection-valued skips: well-formed or not, the result must marshal
			CacheDisabledKey: true, OddSkip: true, OddSources: true,
			MaxSteps: rapid.SampledFrom([]int{5, 5, 14, 30}).Draw(t, "maxsteps")})
		root := g.Pipeline()
		var nodes []*yaml.Node
		allNodes(root, &nodes, map[*yaml.Node]bool{})
		ninj := rapid.IntRange(0, 4).Draw(t, "ninj")
		injected := 0
		for i := 0; i < ninj && len(nodes) > 1; i++ {
			target := nodes[rapid.IntRange(1, len(nodes)-1).Draw(t, "target")]
			if target.Kind == yaml.AliasNode || (target.Kind == yaml.ScalarNode && target.Tag == "!!merge") {
				continue
			}
			repl := rapid.SampledFrom(wrongShapes).Draw(t, "shape")()
			anchor := target.Anchor
			*target = *repl
			target.Anchor = anchor
			injected++
		}
		// now and then a back-edge: a collection that reaches an enclosing anchored collection again,
		// as a value (value cycle: must be rejected) or through a merge (tolerated, or a value cycle
		// when the merged pairs contain the way back) - never a crash
		cyc := false
		if rapid.IntRange(0, 5).Draw(t, "cycle") == 0 {
			var colls []*yaml.Node
			for _, n := range nodes {
				if (n.Kind == yaml.MappingNode || n.Kind == yaml.SequenceNode) && len(n.Content) > 0 {
					colls = append(colls, n)
				}
			}
			if len(colls) > 0 {
				anc := colls[rapid.IntRange(0, len(colls)-1).Draw(t, "cycanc")]
				var desc []*yaml.Node
				allNodes(anc, &desc, map[*yaml.Node]bool{})
				var dcolls []*yaml.Node
				for _, n := range desc {
					if n.Kind == yaml.MappingNode || n.Kind == yaml.SequenceNode {
						dcolls = append(dcolls, n)
					}
				}
				d := dcolls[rapid.IntRange(0, len(dcolls)-1).Draw(t, "cycdesc")]
				if anc.Anchor == "" {
					anc.Anchor = "cyc"
				}
				back := doc.AliasNode(anc)
				switch {
				case d.Kind == yaml.SequenceNode:
					d.Content = append(d.Content, back)
				case anc.Kind == yaml.MappingNode && rapid.Bool().Draw(t, "cycmerge"):
					d.Content = append(d.Content, doc.MergeKey(), back)
				default:
					d.Content = append(d.Content, doc.StrNode("back"), back)
				}
				cyc = true
			}
		}
		var buf bytes.Buffer
		enc := yaml.NewEncoder(&buf)
		enc.SetIndent(2)
		var eerr error
		func() {
			defer func() {
				if r := recover(); r != nil {
					eerr = fmt.Errorf("%v", r)
				}
			}()
			eerr = enc.Encode(doc.DocNode(root))
		}()
		enc.Close()
		if eerr != nil {
			recGen.Excluded("emitter could not write the mutated tree")
			return
		}
		text := buf.Bytes()
		if rapid.IntRange(0, 9).Draw(t, "jsonleg") == 0 {
			// also as JSON when the tree resolves
			if d, err := doc.Render(root, 2, expansionBound); err == nil {
				if jt, _, err := d.JSON(); err == nil {
					text = jt
				}
			}
		}
		oc, err := checkParse(text)
		if err != nil {
			t.Fatalf("%v\n---- document ----\n%s", err, text)
		}
		if oc.skipped != "" {
			recGen.Excluded(oc.skipped)
			return
		}
		nt := oc.usable && oc.steps >= 1 && injected >= 1
		cls := []string{fmt.Sprintf("injections=%d", injected)}
		switch {
		case oc.hardErr:
			cls = append(cls, "hard-error")
		case oc.unknown > 0:
			cls = append(cls, "usable-with-fallbacks")
		default:
			cls = append(cls, "usable-clean")
		}
		if oc.knownF7 {
			cls = append(cls, "known-F7")
			recGen.Excluded("json.Marshal of a non-finite float (known finding F7)")
		}
		if oc.knownF14 {
			cls = append(cls, "known-F14")
			recGen.Excluded("yaml.Marshal of a white-space-led multi-line string in an ordered map (known finding F14)")
		}
		if oc.groupDepth > 0 {
			cls = append(cls, "groups-checked")
		}
		if cyc {
			cls = append(cls, "back-edge-injected")
		}
		recGen.Case(ev.HashBytes(text), nt, cls...)
		recGen.MaybeSample(nt, func() any { return string(text[:min(len(text), 1000)]) })
	})
}

// ---------------------------------------------------------------------------
// (iii) committed corpus, replayed as plain tests; also the seed corpus of the fuzz target

var recCorpus = ev.New("TestCorpus", "committed regression inputs (hostile hand-written documents and the fuzz seed corpus) run through the same oracle; non-trivial = usable result with >= 1 step; distinct by content")

func corpusDirs() []string {
	var out []string
	for _, d := range []string{os.Getenv("VERIF_CORPUS"), "corpus"} {
		if d != "" {
			out = append(out, d)
		}
	}
	return out
}

func readSeed(path string) ([]byte, bool) {
	b, err := os.ReadFile(path)
	if err != nil {
		return nil, false
	}
	if strings.HasPrefix(string(b), "go test fuzz v1\n") {
		// one []byte("...") line
		line := strings.TrimSpace(strings.TrimPrefix(string(b), "go test fuzz v1\n"))
		line = strings.TrimSuffix(strings.TrimPrefix(line, "[]byte("), ")")
		var s string
		if _, err := fmt.Sscanf(line, "%q", &s); err != nil {
			return nil, false
		}
		return []byte(s), true
	}
	return b, true
}

func TestCorpus(t *testing.T) {
	ev.SkipIfReplayingOther(t)
	if ev.Shard() != 0 {
		t.Skip("corpus runs in shard 0")
	}
	seen := map[string]bool{}
	n := 0
	for _, dir := range corpusDirs() {
		filepath.WalkDir(dir, func(path string, d os.DirEntry, err error) error {
			if err != nil || d.IsDir() {
				return nil
			}
			data, ok := readSeed(path)
			if !ok || seen[string(data)] {
				return nil
			}
			seen[string(data)] = true
			oc, cerr := checkParse(data)
			if cerr != nil {
				t.Errorf("%s: %v\n%s", path, cerr, data)
				return nil
			}
			n++
			recCorpus.Case(ev.HashBytes(data), oc.usable && oc.steps > 0, fmt.Sprintf("usable=%v", oc.usable))
			recCorpus.MaybeSample(oc.usable && oc.steps > 0, func() any { return string(data[:min(len(data), 400)]) })
			return nil
		})
	}
	for _, s := range hostile {
		oc, cerr := checkParse([]byte(s))
		if cerr != nil {
			t.Errorf("hostile seed: %v\n%s", cerr, s)
		}
		recCorpus.Case(ev.HashStr(s), oc.usable && oc.steps > 0, fmt.Sprintf("usable=%v", oc.usable))
	}
	t.Logf("corpus files checked: %d, built-in hostile seeds: %d", n, len(hostile))
}

var hostile = []string{
	"", "~", "[]", "{}", "steps: ~", "steps: []", "steps: 5", "steps: {a: b}", "- wait", "- 5", "- [a]", "- ~", "- {}",
	"steps:\n  - command: x\n    foo: .nan\n", "steps:\n  - command: x\n    foo: .inf\n",
	"a: &a\n  b: *a\n", "a: &a [*a]\n", "a: &a {<<: *a, x: 1}\nsteps: []\n", "? [a, b]\n: c\n", "? {a: b}\n: c\n",
	"steps:\n  - type: 5\n", "steps:\n  - type: [a]\n", "steps:\n  - type: []\n    command: x\n", "steps:\n  - type: [5]\n    command: x\n", "steps:\n  - type: [[a]]\n", "steps:\n  - type: {a: 1}\n    wait: ~\n", "steps:\n  - type: true\n", "steps:\n  - type: 1.5\n    command: x\n", "steps:\n  - type: 2001-01-01\n", "steps:\n  - type: [~]\n", "steps:\n  - type: ~\n    command: x\n", "steps:\n  - {type: command}\n", "steps:\n  - {type: group}\n",
	"steps:\n  - group: ~\n    steps: oops\n", "steps:\n  - group: g\n    steps:\n      - mystery\n", "steps:\n  - group: g\n    steps:\n      - group: h\n        steps:\n          - {future: 1}\n",
	"steps:\n  - command: [a, [b]]\n", "steps:\n  - command: {a: b}\n", "steps:\n  - commands: x\n    command: [a]\n",
	"steps:\n  - command: x\n    env: [a]\n", "steps:\n  - command: x\n    env: {D: 2001-01-01}\n", "steps:\n  - command: x\n    env: {B: !!binary aGVsbG8=}\n",
	"steps:\n  - command: x\n    plugins: 5\n", "steps:\n  - command: x\n    plugins: [5]\n", "steps:\n  - command: x\n    plugins: [[a]]\n", "steps:\n  - plugins: {a#1: ~, b#2: {}}\n",
	"steps:\n  - command: x\n    matrix: 5\n", "steps:\n  - command: x\n    matrix: {setup: 5}\n", "steps:\n  - command: x\n    matrix: {setup: {a: {b: c}}}\n",
	"steps:\n  - command: x\n    matrix: {setup: [a], adjustments: [~]}\n", "steps:\n  - command: x\n    matrix: {setup: [a], adjustments: [{with: 1.5}]}\n", "steps:\n  - command: x\n    matrix: {setup: [a], adjustments: 5}\n",
	"steps:\n  - command: x\n    cache: 5\n", "steps:\n  - command: x\n    cache: {disabled: maybe}\n", "steps:\n  - command: x\n    cache: {paths: {a: b}}\n",
	"steps:\n  - command: x\n    signature: 5\n", "steps:\n  - command: x\n    signature: {signed_fields: x}\n",
	"steps:\n  - \"\": {a: b}\n    command: x\n", "\"\": {A: b}\nsteps: [wait]\n", "env: 5\nsteps: [wait]\n", "env: [a]\nsteps: [wait]\n", "env: {A: [b]}\nsteps: [wait]\n",
	"steps:\n  - wait: ~\n    type: 5\n", "steps:\n  - block\n  - input\n  - manual\n  - waiter\n  - nope\n", "steps:\n  - !!float 1\n", "steps:\n  - !!str 5\n",
	"--- a\n--- b\n", "steps: [wait]\n---\nsteps: [block]\n", "{\"steps\":[{\"command\":\"x\",\"matrix\":{\"setup\":null}}]}", "{\"steps\":[{\"command\":\"x\",\"key\":null,\"id\":\"y\"}]}",
	"steps:\n  - &s {command: x}\n  - *s\n  - <<: *s\n    label: l\n", "x: &x [1, 2]\nsteps:\n  - command: *x\n", "x: &x 5\nsteps:\n  - *x\n",
	"steps:\n  - command: x\n    \"<<\": 1\n", "steps:\n  - trigger: t\n    build: {env: {A: .inf}}\n", strings.Repeat("[", 200), strings.Repeat("{a: ", 100),
	"steps:\n" + strings.Repeat("  - wait\n", 300),
	"steps:\n  - <<: &loop [{label: hello}, *loop]\n    command: test\n",
	"b: &b {k: {<<: *b}}\nsteps: [wait]\n",
	"steps:\n  - &s\n    command: x\n    agents: {q: [{<<: *s}]}\n",
	"b: &b\n  k:\n    - <<: [*b]\nsteps: []\n",
	"x: &x [*x]\nsteps:\n  - <<: *x\n    command: y\n",
	"steps:\n  - <<: &p [&q [*p], *q, {label: l}]\n    command: z\n",
	"d: &d {a: 1}\nsteps:\n  - <<: &s [*d, [*d, *s]]\n    command: z\n",
}

// TestWriteSeeds (maintenance): VERIF_WRITE_SEEDS=<dir> writes the built-in hostile seeds as a go fuzz corpus.
func TestWriteSeeds(t *testing.T) {
	dir := os.Getenv("VERIF_WRITE_SEEDS")
	if dir == "" {
		t.Skip("maintenance only")
	}
	os.MkdirAll(dir, 0o755)
	for i, s := range hostile {
		os.WriteFile(filepath.Join(dir, fmt.Sprintf("hostile-%03d", i)), []byte(fmt.Sprintf("go test fuzz v1\n[]byte(%q)\n", s)), 0o644)
	}
}

// ---------------------------------------------------------------------------
// (i) native coverage-guided fuzzing (thorough tier only; state is per call, nothing to reset)

func FuzzParse(f *testing.F) {
	for _, s := range hostile {
		f.Add([]byte(s))
	}
	f.Fuzz(func(t *testing.T, data []byte) {
		if _, err := checkParse(data); err != nil {
			t.Fatalf("%v\n---- input ----\n%q", err, data)
		}
	})
}

func TestKnownFindings(t *testing.T) {
	ev.SkipIfReplayingOther(t)
	if ev.Shard() == 0 {
		probe.F7("C13")
		probe.F14("C13")
	}
}

// ---------------------------------------------------------------------------
// Layered merges: the number of merge paths is exponential in the depth while the merged content is
// tiny, so the size bound above (which follows every alias) would skip these documents although
// their expansion IS bounded. They are built here by shape, parsed under a watchdog and checked
// against the content the merge rules give.

var recLayered = ev.New("TestLayeredMergesParse", "pipelines whose command step merges the last of 8 / 24 / 40 / 64 layered anchored mappings, every layer merging the previous one twice - as `<<: [*p, *p]`, as two `<<` entries, or as a diamond through two intermediate layers: Parse must return within 20 s (watchdog; milliseconds on the unchanged library), the step is a command step carrying the first layer's env and label, marshalling succeeds; non-trivial = depth >= 24; distinct by construction")

func TestLayeredMergesParse(t *testing.T) {
	ev.SkipIfReplayingOther(t)
	for _, depth := range []int{8, 24, 40, 64} {
		for shape := 0; shape < 3; shape++ {
			var b strings.Builder
			b.WriteString("x-defs:\n  l0: &l0\n    label: base\n    env: {K: v}\n")
			for i := 1; i <= depth; i++ {
				switch shape {
				case 0:
					fmt.Fprintf(&b, "  l%d: &l%d\n    <<: [*l%d, *l%d]\n", i, i, i-1, i-1)
				case 1:
					fmt.Fprintf(&b, "  l%d: &l%d\n    <<: *l%d\n    x%d: 1\n    <<: *l%d\n", i, i, i-1, i, i-1)
				default:
					fmt.Fprintf(&b, "  l%da: &l%da\n    <<: *l%d\n  l%db: &l%db\n    <<: *l%d\n  l%d: &l%d\n    <<: [*l%da, *l%db]\n", i, i, i-1, i, i, i-1, i, i, i, i)
				}
			}
			fmt.Fprintf(&b, "steps:\n  - command: echo\n    <<: *l%d\n", depth)
			text := b.String()
			type res struct {
				p   *pipeline.Pipeline
				err error
			}
			done := make(chan res, 1)
			go func() {
				var r res
				defer func() {
					if x := recover(); x != nil {
						r.err = fmt.Errorf("PANIC: %v", x)
					}
					done <- r
				}()
				r.p, r.err = pipeline.Parse(strings.NewReader(text))
			}()
			var r res
			select {
			case r = <-done:
			case <-time.After(20 * time.Second):
				ev.FailCase(t, map[string]any{"depth": depth, "shape": shape, "document": text}, "Parse did not return within 20 s on a %d-byte document of %d layered merges (shape %d) whose merged content is a handful of keys", len(text), depth, shape)
			}
			if r.err != nil {
				t.Fatalf("depth %d shape %d: Parse: %v\n%s", depth, shape, r.err, text)
			}
			cs, ok := r.p.Steps[0].(*pipeline.CommandStep)
			if !ok || cs.Label != "base" || cs.Env["K"] != "v" || cs.Command != "echo" {
				t.Fatalf("depth %d shape %d: the step does not carry the merged content: %#v\n%s", depth, shape, r.p.Steps[0], text)
			}
			if _, err := json.Marshal(r.p); err != nil {
				t.Fatalf("depth %d shape %d: json.Marshal: %v", depth, shape, err)
			}
			if _, err := yaml.Marshal(r.p); err != nil {
				t.Fatalf("depth %d shape %d: yaml.Marshal: %v", depth, shape, err)
			}
			recLayered.Case(ev.HashStr(text), depth >= 24, fmt.Sprintf("shape=%d", shape))
		}
	}
	recLayered.Exhaustive()
}

// ---------------------------------------------------------------------------
// Strings the other checks never write: control characters, DEL, NEL, the byte order mark, U+2028,
// non-characters and astral runes - as JSON escapes in keys and values at every kind of position.
// ("For any byte sequence ... marshalling that pipeline to JSON and to YAML succeeds.")

var recOdd = ev.New("TestPropOddStrings", "JSON documents whose keys and values hold control characters (U+0000-U+001F as \\u escapes), DEL, NEL, BOM, U+2028, U+FFFE, U+10FFFF and astral runes, in the pipeline env block, command / label, step env, plugin sources' configs, nested mappings of unknown fields, unknown steps, groups and top-level extras: the shared oracle (usable result => one step per entry, json.Marshal and yaml.Marshal succeed, ...); non-trivial = an odd KEY inside an order-preserving mapping (env block, nested unknown field, unknown step); distinct by document text")

func TestPropOddStrings(t *testing.T) {
	oddBits := []string{`\u0001`, `\u0007`, `\u000b`, `\u001b`, `\u007f`, `\u0085`, `\u0000`, `\ufeff`, `\u2028`, `\ufffe`, `\u00a0`, `\u200b`, `\\`, `\"`, `\t`, "\U0010ffff", "\U0001F600", "\U000E0001"} // JSON escapes, and raw astral runes (YAML has no surrogate-pair escapes)
	ev.Check(t, 1500, 40000, func(t *rapid.T) {
		n := 0
		odd := func(label string) string {
			n++
			// pieces, so that a bit is never inserted into the middle of an earlier escape
			pieces := []string{"s", fmt.Sprint(n)}
			for i, c := 0, rapid.IntRange(0, 2).Draw(t, label+"n"); i < c; i++ {
				at := rapid.IntRange(0, len(pieces)).Draw(t, label+"at")
				pieces = append(pieces[:at:at], append([]string{rapid.SampledFrom(oddBits).Draw(t, label+"bit")}, pieces[at:]...)...)
			}
			return `"` + strings.Join(pieces, "") + `"`
		}
		obj := func(label string, n int, val func() string) string {
			parts := make([]string, n)
			for i := range parts {
				parts[i] = odd(label+"k") + ": " + val()
			}
			return "{" + strings.Join(parts, ", ") + "}"
		}
		var val func(d int) string
		val = func(d int) string {
			switch k := rapid.IntRange(0, 7).Draw(t, "vk"); {
			case k < 4 || d >= 2:
				return odd("v")
			case k == 4:
				return "[" + odd("l1") + ", " + val(d+1) + "]"
			case k == 5:
				return rapid.SampledFrom([]string{"1", "true", "null", "1.5"}).Draw(t, "lit")
			default:
				return obj("m", rapid.IntRange(0, 3).Draw(t, "mn"), func() string { return val(d + 1) })
			}
		}
		// plugin sources: any string is accepted as a source and must at least survive marshalling -
		// query-only, fragment-only, empty-path, bare-scheme, percent-escaped, dot and slash sources
		pluginSrc := func() string {
			if rapid.Bool().Draw(t, "oddsrc") {
				return odd("src")
			}
			b, _ := json.Marshal(rapid.SampledFrom([]string{"docker#v1", "?ref=main", "#v1.2.3", "%2F", "", "/", "#", "?", "a?b#c", ":", "://", "%", "%zz", "a b", "\\\\", ".", "..", "a//b", "a/", "/a", "a/b/", "http://", "x:y", "#/", "?#", "a#b#c", "%00", "@", "git@host:", "file://", "C:", "a/../b"}).Draw(t, "hostilesrc"))
			return string(b)
		}
		var steps []string
		orderedOddKey := false
		for i, c := 0, rapid.IntRange(1, 4).Draw(t, "nsteps"); i < c; i++ {
			switch rapid.IntRange(0, 5).Draw(t, "skind") {
			case 0:
				steps = append(steps, obj("unk", rapid.IntRange(1, 3).Draw(t, "un"), func() string { return val(0) })) // unknown step
				orderedOddKey = true
			case 1:
				steps = append(steps, `{"group": `+odd("g")+`, "steps": [{"command": `+odd("gc")+`, "agents": `+obj("ga", 2, func() string { return val(1) })+`}]}`)
				orderedOddKey = true
			case 2:
				steps = append(steps, `{"wait": `+odd("w")+`, `+odd("wk")+`: `+val(0)+`}`)
			default:
				steps = append(steps, `{"command": `+odd("c")+`, "label": `+odd("l")+`, "env": `+obj("e", rapid.IntRange(0, 2).Draw(t, "en"), func() string { return odd("ev") })+
					`, "plugins": [{`+pluginSrc()+`: `+obj("p", rapid.IntRange(0, 2).Draw(t, "pn"), func() string { return val(1) })+`}, `+pluginSrc()+`]`+
					`, "agents": `+obj("a", rapid.IntRange(1, 3).Draw(t, "an"), func() string { return val(0) })+`}`)
				orderedOddKey = true
			}
		}
		text := `{"env": ` + obj("pe", rapid.IntRange(0, 3).Draw(t, "pen"), func() string { return odd("pev") }) + `, "steps": [` + strings.Join(steps, ", ") + `], ` + odd("top") + `: ` + val(0) + `}`
		oc, err := checkParse([]byte(text))
		if err != nil {
			t.Fatalf("%v\n%s", err, text)
		}
		if oc.skipped != "" {
			recOdd.Excluded(oc.skipped)
			return
		}
		cls := "usable"
		if oc.hardErr {
			cls = "hard-error"
		}
		recOdd.Case(ev.HashStr(text), oc.usable && orderedOddKey, cls)
		recOdd.MaybeSample(oc.usable && orderedOddKey, func() any { return text[:min(len(text), 500)] })
	})
}

// ---------------------------------------------------------------------------
// Anchor names defined more than once: an alias refers to the latest definition before it. Step lists
// and whole steps are defined, aliased, defined again under the same name and aliased again; the step
// list must hold one step per entry of the INPUT sequence each alias stands for.

var recRedef = ev.New("TestPropRedefinedAnchors", "documents of 2-6 groups whose step lists (and some single steps) are anchored under one of two names, aliased by later groups, anchored again under the same name with other content and aliased again: define / alias / redefine / alias in every order the draws give; oracle = the shared one (one step per input entry, recursively, kinds by the rule table, ...) plus the number and kind of steps each group must hold, known by construction; non-trivial = a name is redefined and aliased both before and after; distinct by document text")

func TestPropRedefinedAnchors(t *testing.T) {
	ev.Check(t, 1200, 30000, func(t *rapid.T) {
		type def struct {
			kinds []string // kind of each step of the list
		}
		latest := map[string]*def{}
		redefined := map[string]bool{}
		aliasedBefore := map[string]bool{}
		nt := false
		stepText := func(i int) (string, string) {
			switch rapid.IntRange(0, 4).Draw(t, "sk") {
			case 0:
				return `"wait"`, doc.KWait
			case 1:
				return fmt.Sprintf(`{"block": "b%d"}`, i), doc.KInput
			case 2:
				return fmt.Sprintf(`{"mystery": %d}`, i), doc.KUnknown
			default:
				return fmt.Sprintf(`{"command": "c%d"}`, i), doc.KCommand
			}
		}
		var b strings.Builder
		b.WriteString("steps:\n")
		var want [][]string
		ng := rapid.IntRange(2, 6).Draw(t, "ngroups")
		n := 0
		for gi := 0; gi < ng; gi++ {
			name := rapid.SampledFrom([]string{"t", "u"}).Draw(t, "name")
			if d := latest[name]; d != nil && rapid.IntRange(0, 2).Draw(t, "usealias") > 0 {
				fmt.Fprintf(&b, "  - group: g%d\n    steps: *%s\n", gi, name)
				want = append(want, d.kinds)
				if redefined[name] {
					nt = nt || aliasedBefore[name]
				}
				aliasedBefore[name] = true
				continue
			}
			d := &def{}
			var items []string
			for i, c := 0, rapid.IntRange(1, 4).Draw(t, "nlist"); i < c; i++ {
				n++
				txt, kind := stepText(n)
				items = append(items, txt)
				d.kinds = append(d.kinds, kind)
			}
			if latest[name] != nil {
				redefined[name] = true
			}
			latest[name] = d
			fmt.Fprintf(&b, "  - group: g%d\n    steps: &%s [%s]\n", gi, name, strings.Join(items, ", "))
			want = append(want, d.kinds)
		}
		text := b.String()
		oc, err := checkParse([]byte(text))
		if err != nil {
			t.Fatalf("%v\n%s", err, text)
		}
		if !oc.usable {
			t.Fatalf("the document does not parse to a usable pipeline\n%s", text)
		}
		p, _ := pipeline.Parse(strings.NewReader(text))
		if len(p.Steps) != len(want) {
			t.Fatalf("%d groups parsed, %d written\n%s", len(p.Steps), len(want), text)
		}
		for gi, kinds := range want {
			gs, ok := p.Steps[gi].(*pipeline.GroupStep)
			if !ok {
				t.Fatalf("step %d is %T, want a group\n%s", gi, p.Steps[gi], text)
			}
			if len(gs.Steps) != len(kinds) {
				t.Fatalf("group g%d holds %d steps, the list its `steps` stands for has %d\n%s", gi, len(gs.Steps), len(kinds), text)
			}
			for i, k := range kinds {
				if got := kindOf(gs.Steps[i]); got != k {
					t.Fatalf("group g%d step %d is %s, the list its `steps` stands for has %s there\n%s", gi, i, got, k, text)
				}
			}
		}
		recRedef.Case(ev.HashStr(text), nt, fmt.Sprintf("groups=%d", ng))
		recRedef.MaybeSample(nt, func() any { return text })
	})
}

// ---------------------------------------------------------------------------
// Large inputs: documents of 64 KiB to 16 MiB (the shared oracle above stops at 1 MiB to keep the
// fuzzer fast). A document that is cut short - by a read limit, a buffer boundary, a size check on
// one path only - is very often still well-formed YAML when its lines are short or the cut falls inside
// a plain or block scalar, so the result looks usable and simply holds fewer steps.

var recLarge = ev.New("TestPropLargeInputs", "well-formed documents of a drawn size (64 KiB, 256 KiB, 1, 2, 4, 8 or 16 MiB, plus up to 8 KiB) made of 3-2000 command / wait steps, the bulk in one or more long command scalars (plain multi-line, literal block, double-quoted, or very many short steps) placed before, between and after the other steps: a usable result holds exactly the steps written, each command text byte for byte; a hard error is permitted by the statement and counted; non-trivial = larger than 1 MiB with steps after the bulk; distinct by size, shape and step count")

func TestPropLargeInputs(t *testing.T) {
	ev.Check(t, 14, 300, func(t *rapid.T) {
		ld := doc.GenLarge(t)
		text, want, shape, size := ld.Text, ld.Want, ld.Shape, ld.Size
		_ = size
		var p *pipeline.Pipeline
		var err error
		func() {
			defer func() {
				if r := recover(); r != nil {
					err = fmt.Errorf("PANIC: %v", r)
					p = nil
					t.Fatalf("Parse panicked on a %d-byte document (shape %d): %v", len(text), shape, r)
				}
			}()
			p, err = pipeline.Parse(strings.NewReader(text))
		}()
		cls := ld.Classes()
		if err != nil && !warning.Is(err) {
			recLarge.Case(ev.Hash(size, shape, len(want)), false, append(cls, "hard-error")...)
			return
		}
		if p == nil || len(p.Steps) != len(want) {
			n := -1
			if p != nil {
				n = len(p.Steps)
			}
			t.Fatalf("a %d-byte document (shape %d) of %d steps parses to a usable result (err = %v) holding %d steps\nfirst bytes: %q\nlast bytes: %q", len(text), shape, len(want), err, n, text[:200], text[len(text)-200:])
		}
		for i, w := range want {
			switch s := p.Steps[i].(type) {
			case *pipeline.WaitStep:
				if w != "\x00wait" {
					t.Fatalf("step %d is a wait step, written as a command step", i)
				}
			case *pipeline.CommandStep:
				if s.Command != w {
					d := 0
					for d < len(w) && d < len(s.Command) && w[d] == s.Command[d] {
						d++
					}
					t.Fatalf("step %d of a %d-byte document: command text differs from what was written (lengths %d vs %d, first difference at byte %d)", i, len(text), len(s.Command), len(w), d)
				}
			default:
				t.Fatalf("step %d of a %d-byte document is a %T (err = %v)", i, len(text), s, err)
			}
		}
		nt := len(text) > 1<<20
		recLarge.Case(ev.Hash(size, shape, len(want)), nt, cls...)
		recLarge.MaybeSample(nt, func() any {
			return map[string]any{"bytes": len(text), "shape": shape, "steps": len(want)}
		})
	})
}
