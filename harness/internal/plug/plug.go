// Package plug generates plugin sources from the documented forms together
// with the canonical source the documented rule prescribes (computed from the
// structured form, never by re-parsing the string). Used by C17 (directly) and
// by every document generator that needs plugins with a known canonical form.
package plug

import (
	"strings"

	"pgregory.net/rapid"
)

type Src struct {
	Text  string `json:"text"`
	Canon string `json:"canon"`
	Class string `json:"class"`
	// Tricky marks the non-trivial cases of C17.
	Tricky bool `json:"tricky,omitempty"`
}

var nameFirst = "abcdefghijklmnopqrstuvwxyzABCDEFGHIJKLMNOPQRSTUVWXYZ0123456789_-"
var nameRest = nameFirst + "."

func genName(t *rapid.T, label string) string {
	switch rapid.IntRange(0, 5).Draw(t, label+"kind") {
	case 0:
		return rapid.SampledFrom([]string{"docker", "docker-compose", "ecr", "artifacts", "shellcheck", "my_plugin", "a", "x.y", "plugin-buildkite-plugin", "github.com", "v1", "123", "gitlab.com", "-", "_", "a..b", "A", "thing.git", "x.git", "git", "a.github", "repo.GIT", "name.tar.gz", "www.example.com", "localhost", "my.org", "127.0.0.1"}).Draw(t, label)
	default:
		n := rapid.IntRange(1, 8).Draw(t, label+"len")
		if rapid.IntRange(0, 39).Draw(t, label+"long") == 0 {
			n = rapid.IntRange(70, 300).Draw(t, label+"longlen")
		}
		var b strings.Builder
		b.WriteByte(nameFirst[rapid.IntRange(0, len(nameFirst)-1).Draw(t, label+"c0")])
		for i := 1; i < n; i++ {
			b.WriteByte(nameRest[rapid.IntRange(0, len(nameRest)-1).Draw(t, label+"c")])
		}
		return b.String()
	}
}

// refComponent: non-empty, not dot-only.
func genRefComponent(t *rapid.T) string {
	for {
		s := rapid.SampledFrom([]string{"v1.2.3", "main", "feature", "x", "1", "abc123def", "release-1.0", "a_b", "v1", "HEAD", "a.b", "..a", "a..", "-", "_", "0"}).Draw(t, "refc")
		if strings.Trim(s, ".") != "" {
			return s
		}
	}
}

func genRef(t *rapid.T) (string, bool) {
	n := rapid.IntRange(1, 3).Draw(t, "refparts")
	if n == 1 || rapid.IntRange(0, 2).Draw(t, "refslash") > 0 {
		n = 1
	}
	if rapid.IntRange(0, 19).Draw(t, "deepref") == 0 {
		n = rapid.IntRange(4, 9).Draw(t, "deeprefn")
	}
	if rapid.IntRange(0, 11).Draw(t, "sharef") == 0 {
		// a pinned commit: 40 (or 7, or 64) hex digits, as pasted - upper case included
		l := rapid.SampledFrom([]int{40, 40, 7, 64, 39, 41}).Draw(t, "shalen")
		var b strings.Builder
		for i := 0; i < l; i++ {
			b.WriteByte("0123456789abcdefABCDEF"[rapid.IntRange(0, 21).Draw(t, "hex")])
		}
		return b.String(), false
	}
	parts := make([]string, n)
	for i := range parts {
		parts[i] = genRefComponent(t)
	}
	return strings.Join(parts, "/"), n > 1
}

func maybeRef(t *rapid.T) (suffix string, slash bool) {
	if rapid.Bool().Draw(t, "hasref") {
		r, s := genRef(t)
		return "#" + r, s
	}
	return "", false
}

func looksLikeHost(s string) bool {
	return strings.Contains(s, ".") && !strings.HasPrefix(s, ".")
}

// Gen generates a source of one of the documented forms.
func Gen() *rapid.Generator[Src] {
	return rapid.Custom(func(t *rapid.T) Src {
		switch rapid.IntRange(0, 11).Draw(t, "form") {
		case 0, 1, 2:
			name := genName(t, "name")
			ref, slash := maybeRef(t)
			return Src{Text: name + ref, Canon: "github.com/buildkite-plugins/" + name + "-buildkite-plugin" + ref, Class: "name", Tricky: slash || looksLikeHost(name)}
		case 3, 4, 5:
			org, name := genName(t, "org"), genName(t, "name")
			ref, slash := maybeRef(t)
			return Src{Text: org + "/" + name + ref, Canon: "github.com/" + org + "/" + name + "-buildkite-plugin" + ref, Class: "org/name", Tricky: slash || looksLikeHost(org) || looksLikeHost(name)}
		case 6:
			// three or more segments: left as written
			n := rapid.IntRange(3, 5).Draw(t, "nseg")
			parts := make([]string, n)
			for i := range parts {
				parts[i] = genName(t, "seg")
			}
			if rapid.Bool().Draw(t, "hostprefix") {
				parts[0] = rapid.SampledFrom([]string{"github.com", "gitlab.com", "bitbucket.org", "git.example.org", "GitHub.com", "GITHUB.COM", "Github.com", "GitLab.com", "github.com.", "www.github.com"}).Draw(t, "host")
			}
			ref, _ := maybeRef(t)
			s := strings.Join(parts, "/") + ref
			return Src{Text: s, Canon: s, Class: "3+segments", Tricky: n == 3}
		case 7:
			// paths: leading / . or backslash
			pre := rapid.SampledFrom([]string{"/", "./", "../", ".", "\\", "\\\\server\\share\\", ".\\", "/abs/path/", "./rel/"}).Draw(t, "pre")
			rest := genName(t, "p")
			if rapid.Bool().Draw(t, "deeper") {
				rest += "/" + genName(t, "p2")
			}
			ref, _ := maybeRef(t)
			s := pre + rest + ref
			return Src{Text: s, Canon: s, Class: "path"}
		case 8:
			scheme := rapid.SampledFrom([]string{"https://", "ssh://git@", "git://", "file://", "http://", "HTTPS://", "ssh://"}).Draw(t, "scheme")
			host := rapid.SampledFrom([]string{"github.com", "example.org", "localhost", "git.example.org:2222"}).Draw(t, "host")
			if scheme == "file://" {
				host = ""
			}
			p := "/" + genName(t, "o") + "/" + genName(t, "r")
			if rapid.Bool().Draw(t, "dotgit") {
				p += ".git"
			}
			ref, _ := maybeRef(t)
			s := scheme + host + p + ref
			return Src{Text: s, Canon: s, Class: "url"}
		case 9:
			// scp-style
			// [user@]host:path - the user part is optional in scp syntax; hosts include addresses and
			// names that begin with a digit or a hyphen (which cannot be mistaken for a URL scheme)
			user := rapid.SampledFrom([]string{"git@", "user@", "me@", "", ""}).Draw(t, "user")
			host := rapid.SampledFrom([]string{"github.com", "example.org", "host", "10.0.0.1", "127.0.0.1", "1and1.example.com", "3scale.net", "-internal.example", "9"}).Draw(t, "host")
			p := genName(t, "o") + "/" + genName(t, "r")
			switch rapid.IntRange(0, 3).Draw(t, "scppath") {
			case 0:
				p = genName(t, "r")
			case 1:
				p = genName(t, "o") + "/" + genName(t, "m") + "/" + genName(t, "r")
			}
			if rapid.Bool().Draw(t, "dotgit") {
				p += ".git"
			}
			ref, _ := maybeRef(t)
			s := user + host + ":" + p + ref
			cls := "scp"
			if user == "" {
				cls = "scp-without-user"
			}
			return Src{Text: s, Canon: s, Class: cls, Tricky: user == ""}
		case 10:
			// drive-letter paths
			drive := rapid.SampledFrom([]string{"C:", "c:", "D:", "Z:"}).Draw(t, "drive")
			sep := rapid.SampledFrom([]string{"\\", "/"}).Draw(t, "sep")
			s := drive + sep + genName(t, "d1") + sep + genName(t, "d2")
			return Src{Text: s, Canon: s, Class: "drive"}
		default:
			// the canonical output of forms 1/2, fed back in (idempotence on the nose)
			org, name := genName(t, "org"), genName(t, "name")
			ref, slash := maybeRef(t)
			s := "github.com/" + org + "/" + name + "-buildkite-plugin" + ref
			return Src{Text: s, Canon: s, Class: "already-canonical", Tricky: slash}
		}
	})
}

var oddBits = []string{"%25", "%2520", "%20", "%2F", "%3F", "%23", "%252F", "%41", "%zz", "%", "+", "~", "@", "=", "&", ",", ";", "!", "*", "'", "(", ")", " ", "é", "日本"}

// GenOdd generates sources of three or more path segments - which the documented rule leaves as
// written whatever they contain - whose segments and ref hold percent escapes, reserved characters
// and non-ASCII text. They are NOT part of C17's domain (which excludes percent-encoded sources);
// the fixpoint and round-trip checks (C09, C02) use them: whatever such a source is normalised to,
// normalising again must not change it - and on this tree it is left exactly as written.
func GenOdd() *rapid.Generator[Src] {
	return rapid.Custom(func(t *rapid.T) Src {
		n := rapid.IntRange(3, 5).Draw(t, "oddnseg")
		parts := make([]string, n)
		for i := range parts {
			seg := genName(t, "oddseg")
			for j, m := 0, rapid.IntRange(0, 2).Draw(t, "oddnbits"); j < m; j++ {
				at := rapid.IntRange(1, len(seg)).Draw(t, "oddat")
				seg = seg[:at] + rapid.SampledFrom(oddBits).Draw(t, "oddbit") + seg[at:]
			}
			parts[i] = seg
		}
		s := strings.Join(parts, "/")
		if rapid.IntRange(0, 3).Draw(t, "oddquery") == 0 {
			s += "?" + genName(t, "oddq") + rapid.SampledFrom([]string{"", "=1", "=%2F", "&x=y"}).Draw(t, "oddqv")
		}
		if rapid.Bool().Draw(t, "oddhasref") {
			ref := genRefComponent(t)
			if rapid.Bool().Draw(t, "oddrefbit") {
				ref += rapid.SampledFrom(oddBits).Draw(t, "oddrefb") + genRefComponent(t)
			}
			s += "#" + ref
		}
		return Src{Text: s, Canon: s, Class: "3+segments-odd", Tricky: true}
	})
}
