package doc

import (
	"fmt"
	"strings"

	"gopkg.in/yaml.v3"
	"pgregory.net/rapid"

	"verif/harness/internal/plug"
	"verif/harness/internal/strs"
)

// Config selects the sub-grammar a check wants.
type Config struct {
	// Str generates the string for a role (command, label, key, envkey, envval,
	// cfgkey, cfgval, dim, dimval, cache, any, anykey, group, trigger, source...).
	// nil means strs.S for every role.
	Str func(t *rapid.T, role string) string
	// PluginSrc generates plugin sources; nil means plug.Gen (documented forms).
	PluginSrc func(t *rapid.T) string
	// OddSkip: an adjustment's `skip` may be a list or a mapping (C04 only).
	OddSkip bool
	// CacheDisabledKey: mapping-form caches may carry a `disabled:` key (C04 only).
	CacheDisabledKey bool
	// UniqueAnchors: never define an anchor name twice (default: one anchor in six reuses a name).
	UniqueAnchors bool
	// OddSources: one source in eight is a 3+-segment source holding percent escapes, reserved
	// characters or non-ASCII text (left as written; outside C17's domain, inside C09's and C02's).
	OddSources bool
	// EmptyCfgBias: one plugin config in three is an empty, non-nil collection (`{}` or `[]`) - the
	// shape an observer that "tidies up" writes into (C19's rounds are few).
	EmptyCfgBias bool
	// MixedKinds: one step mapping in six also carries one or two kind-determining keys of other
	// families (`wait` next to `command`, `trigger` next to `block`, ...). Only for checks that do not
	// predict the step kind from the generator's plan (C09).
	MixedKinds bool

	Anchors       bool // aliases and << merges
	Timestamps    bool // timestamp scalars at Any positions
	BigNums       bool // integers beyond 2^53 (and above MaxInt64) at Any positions
	Floats        bool // floats
	BigMaps       bool // bias towards maps with more than 8 entries
	BigMapOneIn   int  // with BigMaps: one map in N is big (default 6)
	EmptyKey      bool // "" as an unknown key
	MergeKeyStr   bool // the string "<<" as a (quoted) mapping key
	EmptyMatrix   bool // matrix: [] / setup: [] / matrix: {} forms
	UnknownSteps  bool // unknown scalar and mapping steps
	Signature     bool // steps may carry a signature block
	BothCommands  bool // allow command + commands together
	MaxSteps      int  // default 5
	MaxDepth      int  // group nesting, default 3
	OnlyCommand   bool // only command steps (and groups of them)
	NoPipelineEnv bool // never emit a top-level env block
}

// G is one document generation run.
type G struct {
	T       *rapid.T
	C       Config
	anchors map[string][]*yaml.Node
	nAnch   int
	// anchor names may be defined again later in the document (an alias refers to the latest
	// definition before it): latest[name] is the node an alias *name written now would reach
	latest map[string]*yaml.Node
	names  []string
	// keyAnchors: anchored scalars whose values are ordinary key names; a later mapping may write such a
	// key as an alias (`*k1 : value`)
	keyAnchors []*yaml.Node
	Feat   map[string]int
	// Canon maps every generated plugin source to the canonical form the
	// documented rule prescribes (from its structured form).
	Canon map[string]string
}

func NewG(t *rapid.T, c Config) *G {
	if c.MaxSteps == 0 {
		c.MaxSteps = 5
	}
	if c.MaxDepth == 0 {
		c.MaxDepth = 3
	}
	return &G{T: t, C: c, anchors: map[string][]*yaml.Node{}, latest: map[string]*yaml.Node{}, Feat: map[string]int{}, Canon: map[string]string{}}
}

func (g *G) feat(f string) { g.Feat[f]++ }

func (g *G) intn(label string, lo, hi int) int { return rapid.IntRange(lo, hi).Draw(g.T, label) }
func (g *G) coin(label string, oneIn int) bool {
	return rapid.IntRange(0, oneIn-1).Draw(g.T, label) == 0
}
func pick[T any](g *G, label string, xs []T) T { return rapid.SampledFrom(xs).Draw(g.T, label) }

// pathLike: what people put into cache settings, command lines and artifact lists - trailing and
// doubled slashes, dot segments, globs, tildes
var pathLike = []string{"vendor/", "out//", "a///", "./", "/", "//", ".cache", "node_modules/", "~/.m2", "**/*.log", "tmp/../tmp/", "dir/sub//", "C:\\cache\\", "a/./b/", " spaced dir/ ", "trailing-dot."}

func (g *G) s(role string) string {
	if g.C.Str != nil {
		return g.C.Str(g.T, role)
	}
	if role == "cache" && g.coin("pathlike", 3) {
		return pick(g, "path", pathLike)
	}
	if role == "command" && g.coin("lines", 5) {
		// command text as it comes out of editors and generators: several lines with mixed line endings,
		// sometimes a dangling carriage return at the end (the next list item is joined on with a line feed)
		g.feat("command-lines-with-mixed-endings")
		var b strings.Builder
		for i, c := 0, g.intn("nlines", 1, 4); i < c; i++ {
			b.WriteString(pick(g, "linetext", []string{"echo a", "make", "x", "$X", "{{matrix}}", "yes", "# c", "- a", "a: b"}))
			if i < c-1 || g.coin("trailing", 2) {
				b.WriteString(pick(g, "eol", []string{"\n", "\r\n", "\r", "\r\r\n", "\n\r", "\r\n\r\n", "\n\n"}))
			}
		}
		return b.String()
	}
	return strs.S().Draw(g.T, role)
}

// ---------------------------------------------------------------------------
// node constructors

func Scalar(tag, value string, style yaml.Style) *yaml.Node {
	return &yaml.Node{Kind: yaml.ScalarNode, Tag: tag, Value: value, Style: style}
}

// StrNode is a string scalar; the emitter quotes it whenever its plain form
// would not read back as the same string.
func StrNode(s string) *yaml.Node { return Scalar("!!str", s, 0) }

func Plain(text string) *yaml.Node { return Scalar("", text, 0) }

func MapNode(flow bool, kv ...*yaml.Node) *yaml.Node {
	n := &yaml.Node{Kind: yaml.MappingNode, Tag: "!!map", Content: kv}
	if flow {
		n.Style = yaml.FlowStyle
	}
	return n
}

func SeqNode(flow bool, items ...*yaml.Node) *yaml.Node {
	n := &yaml.Node{Kind: yaml.SequenceNode, Tag: "!!seq", Content: items}
	if flow {
		n.Style = yaml.FlowStyle
	}
	return n
}

func AliasNode(target *yaml.Node) *yaml.Node {
	return &yaml.Node{Kind: yaml.AliasNode, Alias: target, Value: target.Anchor}
}

func MergeKey() *yaml.Node { return Scalar("!!merge", "<<", 0) }

func DocNode(root *yaml.Node) *yaml.Node {
	return &yaml.Node{Kind: yaml.DocumentNode, Content: []*yaml.Node{root}}
}

func (g *G) style() yaml.Style {
	switch g.intn("style", 0, 9) {
	case 0:
		return yaml.DoubleQuotedStyle
	case 1:
		return yaml.SingleQuotedStyle
	case 2:
		return yaml.LiteralStyle
	}
	return 0
}

func (g *G) strNode(s string) *yaml.Node {
	st := g.style()
	if (st == yaml.LiteralStyle || st == yaml.FoldedStyle) && !blockSafe(s) {
		st = 0
	}
	return Scalar("!!str", s, st)
}

// blockSafe: strings for which forcing literal / folded style is known to
// round-trip through yaml.v3's emitter (no leading white space, no CR, no
// white-space-only or space-terminated lines). Other strings keep the
// emitter's own choice of style.
func blockSafe(s string) bool {
	if s == "" || strings.ContainsAny(s[:1], " \t\n\r") || strings.Contains(s, "\r") {
		return false
	}
	for _, line := range strings.Split(s, "\n") {
		if line != "" && strings.TrimRight(line, " \t") != line {
			return false
		}
		if line != "" && strings.TrimLeft(line, " \t") != line {
			return false
		}
	}
	return true
}

func (g *G) str(role string) *yaml.Node { return g.strNode(g.s(role)) }

var intTexts = []string{"0", "1", "-1", "7", "42", "-300", "1000", "0x1f", "0o17", "0b101", "1_000", "+7", "65536", "2147483648", "-9007199254740991", "9007199254740991"}
var bigIntTexts = []string{"9007199254740993", "9223372036854775807", "-9223372036854775808", "9223372036854775808", "18446744073709551615"}
var floatTexts = []string{"1.5", "-0.25", "1e3", ".5", "3.0", "1E-2", "6.02e23", "0.1", "-1.0e-7", "100.0", "2.5e+10"}
var boolTexts = []string{"true", "false", "True", "FALSE", "False", "TRUE"}
var nullTexts = []string{"null", "~", "Null", "NULL"}
var timeTexts = []string{"2001-01-01", "2001-12-14t21:59:43.10-05:00", "2001-12-14 21:59:43.10 -5", "2001-12-15T02:59:43.1Z", "2002-12-14", "1999-12-31T23:59:59Z"}

// typed generates a scalar for a typed string position: string, int, finite
// float, bool or null (DESIGN §2.1).
func (g *G) typed(role string) *yaml.Node {
	hi := 9
	switch g.intn("typed", 0, hi) {
	case 0:
		return Plain(pick(g, "int", intTexts))
	case 1:
		if g.C.Floats {
			return Plain(pick(g, "float", floatTexts))
		}
	case 2:
		return Plain(pick(g, "bool", boolTexts))
	case 3:
		if g.coin("null", 2) {
			return Plain(pick(g, "nulltext", nullTexts))
		}
	}
	return g.str(role)
}

// typedNN is typed without null.
func (g *G) typedNN(role string) *yaml.Node {
	n := g.typed(role)
	if n.Tag == "" {
		for _, x := range nullTexts {
			if n.Value == x {
				return g.str(role)
			}
		}
	}
	return n
}

// scalarAny generates any YAML scalar kind.
func (g *G) scalarAny(role string) *yaml.Node {
	switch g.intn("sk", 0, 11) {
	case 0:
		return Plain(pick(g, "int", intTexts))
	case 1:
		if g.C.BigNums {
			return Plain(pick(g, "bigint", bigIntTexts))
		}
		return Plain(pick(g, "int", intTexts))
	case 2:
		if g.C.Floats {
			return Plain(pick(g, "float", floatTexts))
		}
	case 3:
		return Plain(pick(g, "bool", boolTexts))
	case 4:
		return Plain(pick(g, "nulltext", nullTexts))
	case 5:
		if g.C.Timestamps {
			return Plain(pick(g, "time", timeTexts))
		}
	}
	return g.str(role)
}

// ---------------------------------------------------------------------------
// anchors, aliases, merges

func (g *G) register(n *yaml.Node, sort string) {
	if !g.C.Anchors || !g.coin("anchor?", 3) {
		return
	}
	if n.Anchor == "" {
		g.setAnchor(n)
	}
	g.anchors[sort] = append(g.anchors[sort], n)
}

// mentions reports whether the subtree of n (n's own anchor aside) defines or references anchor name.
func mentions(n *yaml.Node, name string, top bool) bool {
	if !top && n.Anchor == name {
		return true
	}
	if n.Kind == yaml.AliasNode && n.Value == name {
		return true
	}
	for _, c := range n.Content {
		if mentions(c, name, false) {
			return true
		}
	}
	return false
}

// setAnchor anchors n: usually under a fresh name, one time in six under a name that an earlier
// node already carries (a redefinition; documents are generated in document order, so from here on
// *name reaches n). A name that n's own subtree defines or references is never reused: the anchor
// of n is written before its content.
func (g *G) setAnchor(n *yaml.Node) {
	if len(g.names) > 0 && !g.C.UniqueAnchors && g.coin("reusename", 6) {
		name := pick(g, "reusedname", g.names)
		if g.latest[name] != n && !mentions(n, name, true) {
			n.Anchor = name
			g.latest[name] = n
			g.feat("anchor-name-redefined")
			return
		}
	}
	n.Anchor = g.newAnchor()
	g.latest[n.Anchor] = n
	g.names = append(g.names, n.Anchor)
}

// live filters a pool of anchored nodes down to those an alias written now would still reach.
func (g *G) live(pool []*yaml.Node) []*yaml.Node {
	var out []*yaml.Node
	for _, n := range pool {
		if g.latest[n.Anchor] == n {
			out = append(out, n)
		}
	}
	return out
}

// alias may return an alias to an earlier node of the same sort.
func (g *G) alias(sort string) *yaml.Node {
	if !g.C.Anchors || len(g.anchors[sort]) == 0 || !g.coin("alias?", 4) {
		return nil
	}
	pool := g.live(g.anchors[sort])
	if len(pool) == 0 {
		return nil
	}
	g.feat("alias:" + sort)
	g.feat("alias")
	return AliasNode(pick(g, "target", pool))
}

type ent struct {
	key string
	raw bool // key is emitted as untagged plain text (int / bool look-alike)
	gen func() *yaml.Node
}

func (g *G) keyNode(e ent) *yaml.Node {
	if e.raw {
		return Plain(e.key)
	}
	// a key written as an alias to an anchored scalar of the same text
	for _, a := range g.live(g.keyAnchors) {
		if a.Value == e.key && g.coin("aliaskey", 2) {
			g.feat("alias-as-mapping-key")
			return AliasNode(a)
		}
	}
	st := yaml.Style(0)
	switch g.intn("kstyle", 0, 7) {
	case 0:
		st = yaml.DoubleQuotedStyle
	case 1:
		st = yaml.SingleQuotedStyle
	}
	if e.key == "<<" && st == 0 {
		// yaml.v3's emitter writes a !!str "<<" key plain (it would read back as a merge key):
		// the INPUT document must quote it
		st = yaml.DoubleQuotedStyle
	}
	return Scalar("!!str", e.key, st)
}

// mapping builds a mapping from a plan, in plan order, optionally inserting
// `<<` merge entries whose sources are earlier anchored mappings of mergeSort.
func (g *G) mapping(mergeSort string, plan []ent) *yaml.Node {
	flow := g.coin("flow", 5)
	n := MapNode(flow)
	mergeAt := -1
	var srcs []*yaml.Node
	if mergeSort != "" && g.C.Anchors && len(g.live(g.anchors["map:"+mergeSort])) > 0 && g.coin("merge?", 3) {
		mergeAt = g.intn("mergeAt", 0, len(plan))
		pool := g.live(g.anchors["map:"+mergeSort])
		k := 1
		if len(pool) > 1 && g.coin("twosrc", 2) {
			k = 2
		}
		perm := rapid.Permutation(pool).Draw(g.T, "srcperm")
		srcs = perm[:k]
	}
	// two sources may also be written as two separate `<<` entries of the same mapping (the first
	// one where the sequence form would stand, the second one at or after it): repeated merges
	mergeAt2 := -1
	var second []*yaml.Node
	if len(srcs) == 2 && g.coin("repeatedmerge", 2) {
		mergeAt2 = g.intn("mergeAt2", mergeAt, len(plan))
		second = srcs[1:]
		srcs = srcs[:1]
	}
	emitMerge := func() {
		// entries generated since the sources were chosen may have redefined a source's name
		srcs = g.live(srcs)
		if len(srcs) == 0 {
			return
		}
		g.feat("merge")
		g.feat("merge:" + mergeSort)
		var v *yaml.Node
		if len(srcs) == 1 && g.coin("single-as-alias", 2) {
			v = AliasNode(srcs[0])
		} else {
			v = SeqNode(true)
			for _, s := range srcs {
				v.Content = append(v.Content, AliasNode(s))
			}
			if len(srcs) > 1 {
				g.feat("merge-multi")
			}
			if g.coin("mergeseq-selfref", 8) {
				// an anchored merge-value sequence that refers back to itself: a merge cycle
				// through a sequence, which must be tolerated (it contributes nothing)
				v.Anchor = g.newAnchor()
				g.latest[v.Anchor] = v
				g.names = append(g.names, v.Anchor)
				v.Content = append(v.Content, AliasNode(v))
				g.feat("merge-cycle-through-sequence")
			}
		}
		n.Content = append(n.Content, MergeKey(), v)
	}
	emitSecond := func() {
		srcs = second
		emitMerge()
		g.feat("merge-repeated-entry")
	}
	for i, e := range plan {
		if i == mergeAt {
			emitMerge()
		}
		if i == mergeAt2 {
			emitSecond()
		}
		k := g.keyNode(e)
		v := e.gen()
		n.Content = append(n.Content, k, v)
	}
	if mergeAt == len(plan) {
		emitMerge()
	}
	if mergeAt2 == len(plan) {
		emitSecond()
	}
	if mergeSort != "" {
		g.register(n, "map:"+mergeSort)
	}
	return n
}

func (g *G) shuffle(plan []ent) []ent {
	if len(plan) < 2 {
		return plan
	}
	return rapid.Permutation(plan).Draw(g.T, "order")
}

// ---------------------------------------------------------------------------
// Any values and unknown extras

var realisticKeys = []string{"agents", "artifact_paths", "retry", "if", "depends_on", "soft_fail", "parallelism", "timeout_in_minutes", "branches", "concurrency", "concurrency_group", "priority", "notify", "allow_dependency_failure", "skip", "prompt", "fields", "build", "async", "continue_on_failure"}

var rawKeys = []struct{ text, canon string }{{"12", "12"}, {"0x10", "16"}, {"true", "true"}, {"0o7", "7"}, {"-3", "-3"}, {"False", "false"}, {"007", "7"}}

// newKey returns an unused key (by canonical form) for a mapping whose used
// keys are in used; excl holds names that must not be generated at all.
func (g *G) newKey(role string, used map[string]bool, excl map[string]bool) (ent, bool) {
	for try := 0; try < 12; try++ {
		var e ent
		switch g.intn("keykind", 0, 9) {
		case 0, 1, 2, 3:
			e.key = pick(g, "rkey", realisticKeys)
		case 4:
			r := pick(g, "rawkey", rawKeys)
			if used[r.canon] || excl[r.canon] {
				continue
			}
			used[r.canon] = true
			return ent{key: r.text, raw: true}, true
		case 5:
			e.key = fmt.Sprintf("x%d", g.intn("xn", 0, 120))
		default:
			e.key = g.s(role)
		}
		if e.key == "" && !g.C.EmptyKey {
			continue
		}
		if e.key == "<<" && (!g.C.MergeKeyStr || !g.coin("keepmergekey", 6)) {
			// the key "<<" switches a document's YAML output leg off while F9 is listed: keep it rare
			continue
		}
		if len(e.key) > MaxKeyLen {
			continue
		}
		if used[e.key] || excl[e.key] {
			continue
		}
		used[e.key] = true
		return e, true
	}
	return ent{}, false
}

func (g *G) mapSize(label string, small int) int {
	oneIn := g.C.BigMapOneIn
	if oneIn < 2 {
		oneIn = 6
	}
	// wide and big mappings are budgeted per document (2 and 12): nested ones would otherwise multiply
	// into documents of a million draws (slow, and beyond what rapid's shrinker can prune)
	if g.C.BigMaps && g.Feat["widemap"] < 2 && g.coin(label+"wide", 150) {
		// beyond 64 entries (bitsets, small-array fast paths and the like have their thresholds there)
		g.feat("widemap")
		return g.intn(label+"wn", 65, 80)
	}
	if g.C.BigMaps && g.Feat["bigmap"] < 12 && g.coin(label+"big", oneIn) {
		g.feat("bigmap")
		return g.intn(label+"n", 9, 24)
	}
	return g.intn(label, 0, small)
}

// Any generates an arbitrary value.
func (g *G) Any(depth int) *yaml.Node {
	if a := g.alias("any"); a != nil {
		return a
	}
	var n *yaml.Node
	switch k := g.intn("anykind", 0, 9); {
	case depth >= 3 || k < 5:
		n = g.scalarAny("any")
	case k < 7:
		cnt := g.intn("seqn", 0, 3)
		n = SeqNode(g.coin("flow", 4))
		for i := 0; i < cnt; i++ {
			n.Content = append(n.Content, g.Any(depth+1))
		}
	default:
		n = g.AnyMap(depth+1, g.mapSize("mapn", 4))
	}
	g.register(n, "any")
	return n
}

// AnyMap generates a mapping with cnt arbitrary keys.
func (g *G) AnyMap(depth, cnt int) *yaml.Node {
	used := map[string]bool{}
	var plan []ent
	for i := 0; i < cnt; i++ {
		e, ok := g.newKey("anykey", used, nil)
		if !ok {
			continue
		}
		e.gen = func() *yaml.Node { return g.Any(depth) }
		plan = append(plan, e)
	}
	return g.mapping("any", plan)
}

// kindExtras: kind-determining keys of other families, each with a value its own family accepts.
func (g *G) kindExtras(used map[string]bool) []ent {
	if !g.C.MixedKinds || !g.coin("mixedkinds", 6) {
		return nil
	}
	var plan []ent
	for i, c := 0, g.intn("nkindextras", 1, 2); i < c; i++ {
		k := pick(g, "kindextra", KindKeys)
		if used[k] {
			continue
		}
		used[k] = true
		var f func() *yaml.Node
		switch k {
		case "command", "commands":
			f = func() *yaml.Node { return g.cmdList(true) }
		case "plugins":
			f = func() *yaml.Node { return g.plugins() }
		case "group":
			// (a group's name is a typed string position: string, number, boolean or null - a timestamp
			// there is a type error, and the documented fallback applies)
			f = func() *yaml.Node { return g.groupName() }
		case "wait", "waiter":
			f = func() *yaml.Node {
				if g.coin("kindnull", 2) {
					return Plain(pick(g, "nulltext", nullTexts))
				}
				return g.scalarAny("any")
			}
		default:
			f = func() *yaml.Node { return g.scalarAny("label") }
		}
		plan = append(plan, ent{key: k, gen: f})
		g.feat("keys-of-two-kind-families")
	}
	return plan
}

// extras returns cnt plan entries with unknown keys not in excl.
func (g *G) extras(used, excl map[string]bool, cnt int) []ent {
	plan := g.kindExtras(used)
	for i := 0; i < cnt; i++ {
		e, ok := g.newKey("anykey", used, excl)
		if !ok {
			continue
		}
		e.gen = func() *yaml.Node { return g.Any(1) }
		plan = append(plan, e)
		g.feat("extra")
	}
	return plan
}

// ---------------------------------------------------------------------------
// the pipeline grammar

// MaxKeyLen bounds generated mapping keys: YAML limits implicit ("simple") keys
// to 1024 characters, and JSON input is read as YAML, so a longer key cannot be
// carried by the JSON leg at all - a limit of the YAML format, outside every
// property's domain.
const MaxKeyLen = 300

// KindKeys are the ten kind-determining keys.
var KindKeys = []string{"command", "commands", "plugins", "wait", "waiter", "block", "input", "manual", "trigger", "group"}

func set(xs ...string) map[string]bool {
	m := map[string]bool{}
	for _, x := range xs {
		m[x] = true
	}
	return m
}

func union(ms ...map[string]bool) map[string]bool {
	out := map[string]bool{}
	for _, m := range ms {
		for k := range m {
			out[k] = true
		}
	}
	return out
}

var kindKeySet = union(set(KindKeys...), set("type"))

// Pipeline generates a whole document root (mapping with steps, or bare list).
func (g *G) Pipeline() *yaml.Node {
	if g.coin("barelist", 5) {
		g.feat("bare-list")
		return g.steps(0, true)
	}
	used := set("steps", "env")
	var plan []ent
	// YAML templates first: anchored fragments that later steps / env merge from
	if g.C.Anchors {
		for i, n := 0, g.intn("defs", 0, 2); i < n; i++ {
			name := fmt.Sprintf("x-defs-%d", i)
			used[name] = true
			plan = append(plan, ent{key: name, gen: func() *yaml.Node { return g.template() }})
		}
	}
	if g.C.Anchors && g.coin("keyanchors", 3) {
		used["x-keys"] = true
		plan = append(plan, ent{key: "x-keys", gen: func() *yaml.Node {
			l := SeqNode(true)
			seen := map[string]bool{}
			for i, c := 0, g.intn("nkeyanchors", 1, 4); i < c; i++ {
				k := pick(g, "keyanchor", realisticKeys)
				if seen[k] {
					continue
				}
				seen[k] = true
				n := g.strNode(k)
				g.setAnchor(n)
				g.keyAnchors = append(g.keyAnchors, n)
				l.Content = append(l.Content, n)
			}
			return l
		}})
	}
	var rest []ent
	stepsForm := g.intn("stepsform", 0, 11)
	rest = append(rest, ent{key: "steps", gen: func() *yaml.Node {
		switch stepsForm {
		case 0:
			g.feat("steps-null")
			return Plain("null")
		}
		return g.steps(0, stepsForm != 1)
	}})
	if !g.C.NoPipelineEnv && g.coin("env?", 2) {
		rest = append(rest, ent{key: "env", gen: func() *yaml.Node { return g.envBlock("env", true) }})
	}
	rest = append(rest, g.extras(used, set("steps", "env"), g.mapSize("topextras", 3))...)
	plan = append(plan, g.shuffle(rest)...)
	return g.mapping("", plan)
}

// template generates an anchored fragment: a map of scalars usable as an env
// merge source, or a command-step fragment usable as a step merge source.
func (g *G) template() *yaml.Node {
	if g.coin("envtemplate", 2) {
		n := g.envMap("envval", g.intn("tn", 1, 4))
		g.setAnchor(n)
		g.anchors["map:env"] = append(g.anchors["map:env"], n)
		g.anchors["map:stepenv"] = append(g.anchors["map:stepenv"], n)
		g.anchors["env"] = append(g.anchors["env"], n)
		g.anchors["stepenv"] = append(g.anchors["stepenv"], n)
		return n
	}
	used := map[string]bool{}
	var plan []ent
	if g.coin("t-env", 2) {
		used["env"] = true
		plan = append(plan, ent{key: "env", gen: func() *yaml.Node { return g.envBlock("stepenv", false) }})
	}
	if g.coin("t-plugins", 3) {
		used["plugins"] = true
		plan = append(plan, ent{key: "plugins", gen: func() *yaml.Node { return g.plugins() }})
	}
	if g.coin("t-label", 3) {
		used["label"] = true
		plan = append(plan, ent{key: "label", gen: func() *yaml.Node { return g.typed("label") }})
	}
	plan = append(plan, g.extras(used, union(kindKeySet, commandModelled), g.intn("t-extras", 1, 3))...)
	n := g.mapping("", g.shuffle(plan))
	g.setAnchor(n)
	g.anchors["map:cmdstep"] = append(g.anchors["map:cmdstep"], n)
	return n
}

func (g *G) newAnchor() string {
	g.nAnch++
	return fmt.Sprintf("a%d", g.nAnch)
}

func (g *G) steps(depth int, nonEmpty bool) *yaml.Node {
	lo := 0
	if nonEmpty {
		lo = 1
	}
	// a whole list of steps may be an alias of an earlier one (a group re-using another group's list,
	// `steps: *tests`); the earlier list has at least one step, whatever is required here
	if a := g.alias("steps"); a != nil {
		g.feat("alias:steps-list")
		return a
	}
	cnt := g.intn("nsteps", lo, g.C.MaxSteps)
	n := SeqNode(false)
	if cnt == 0 {
		n.Style = yaml.FlowStyle
	}
	for i := 0; i < cnt; i++ {
		n.Content = append(n.Content, g.Step(depth))
	}
	if cnt > 0 {
		g.register(n, "steps")
	}
	return n
}

// Step generates one step of a random kind.
func (g *G) Step(depth int) *yaml.Node {
	k := g.intn("stepkind", 0, 13)
	if g.C.OnlyCommand && !(k == 10 || k == 11) {
		k = 0
	}
	switch {
	case k < 7:
		if a := g.alias("step:command"); a != nil {
			return a
		}
		n := g.CommandStep()
		g.register(n, "step:command")
		return n
	case k == 7:
		return g.waitStep()
	case k == 8:
		return g.inputStep()
	case k == 9:
		return g.triggerStep()
	case k == 10 || k == 11:
		if depth < g.C.MaxDepth {
			return g.groupStep(depth)
		}
		return g.CommandStep()
	default:
		if g.C.UnknownSteps {
			return g.unknownStep()
		}
		return g.waitStep()
	}
}

var commandModelled = set("key", "id", "identifier", "label", "name", "command", "commands", "plugins", "env", "signature", "matrix", "cache")

// cmdList generates the value of command / commands: scalar or list of typed scalars.
func (g *G) cmdList(allowList bool) *yaml.Node {
	if a := g.alias("cmdlist"); a != nil && allowList {
		return a
	}
	if !allowList || g.coin("cmdscalar", 2) {
		return g.typed("command")
	}
	g.feat("command-list")
	cnt := g.intn("ncmd", 0, 3)
	n := SeqNode(g.coin("flow", 4))
	for i := 0; i < cnt; i++ {
		n.Content = append(n.Content, g.typed("command"))
	}
	g.register(n, "cmdlist")
	return n
}

// CommandStep generates a command step mapping.
func (g *G) CommandStep() *yaml.Node {
	used := map[string]bool{}
	var plan []ent
	add := func(k string, f func() *yaml.Node) {
		used[k] = true
		plan = append(plan, ent{key: k, gen: f})
	}
	form := g.intn("cmdform", 0, 9)
	hasCmd := false
	switch {
	case form < 4:
		add("command", func() *yaml.Node { return g.cmdList(true) })
		hasCmd = true
	case form < 7:
		add("commands", func() *yaml.Node { return g.cmdList(true) })
		hasCmd = true
		g.feat("commands-key")
	case form == 7 && g.C.BothCommands:
		// both: `command` scalar only (a list-valued `command` next to `commands` is excluded, see DESIGN)
		add("command", func() *yaml.Node { return g.cmdList(false) })
		add("commands", func() *yaml.Node { return g.cmdList(true) })
		hasCmd = true
		g.feat("command+commands")
	case form == 7:
		add("command", func() *yaml.Node { return g.cmdList(true) })
		hasCmd = true
	}
	pluginsForm := g.intn("pluginsform", 0, 3)
	if !hasCmd || pluginsForm == 0 {
		if !hasCmd && g.coin("typeonly", 3) {
			add("type", func() *yaml.Node { return g.strNode(pick(g, "ctype", []string{"command", "script"})) })
			g.feat("type-key")
		} else {
			add("plugins", func() *yaml.Node { return g.plugins() })
		}
	}
	if hasCmd && g.coin("type?", 8) {
		add("type", func() *yaml.Node { return g.strNode(pick(g, "ctype", []string{"command", "script"})) })
		g.feat("type-key")
	}
	// label / name subset, key / id / identifier subset
	for _, k := range []string{"label", "name"} {
		if g.coin(k+"?", 3) {
			kk := k
			add(kk, func() *yaml.Node { return g.typed("label") })
			if kk == "name" {
				g.feat("alias-key:name")
			}
		}
	}
	for _, k := range []string{"key", "id", "identifier"} {
		if g.coin(k+"?", 4) {
			kk := k
			add(kk, func() *yaml.Node { return g.typed("key") })
			if kk != "key" {
				g.feat("alias-key:" + kk)
			}
		}
	}
	if g.coin("env?", 2) {
		add("env", func() *yaml.Node { return g.envBlock("stepenv", false) })
	}
	if g.coin("matrix?", 3) {
		add("matrix", func() *yaml.Node { return g.matrix() })
	}
	if g.coin("cache?", 4) {
		add("cache", func() *yaml.Node { return g.cache() })
	}
	if g.C.Signature && g.coin("sig?", 6) {
		add("signature", func() *yaml.Node { return g.signatureBlock() })
	}
	plan = append(plan, g.extras(used, union(kindKeySet, commandModelled), g.mapSize("cmdextras", 3))...)
	return g.mapping("cmdstep", g.shuffle(plan))
}

// envMap: mapping of unknown keys to typed scalars.
func (g *G) envMap(role string, cnt int) *yaml.Node {
	used := map[string]bool{}
	var plan []ent
	for i := 0; i < cnt; i++ {
		var e ent
		switch g.intn("envkeykind", 0, 5) {
		case 0, 1, 2:
			e.key = pick(g, "envname", []string{"FOO", "BAR", "BAZ", "PATH", "HOME", "CI", "A", "B", "C", "D", "E", "F", "lower", "Mixed_Case", "X1", "X2", "X3", "X4", "X5", "X6", "X7", "X8", "X9"})
		default:
			e.key = g.s("envkey")
		}
		if (e.key == "" && !g.C.EmptyKey) || (e.key == "<<" && !g.C.MergeKeyStr) || used[e.key] || len(e.key) > MaxKeyLen {
			continue
		}
		used[e.key] = true
		e.gen = func() *yaml.Node { return g.typed(role) }
		plan = append(plan, e)
	}
	return g.mapping("", plan)
}

// envBlock: absent is handled by the caller; this yields null / {} / map.
func (g *G) envBlock(sort string, pipelineLevel bool) *yaml.Node {
	if a := g.alias(sort); a != nil {
		return a
	}
	switch g.intn("envform", 0, 9) {
	case 0:
		g.feat("env-null")
		return Plain("null")
	case 1:
		g.feat("env-empty")
		return MapNode(true)
	}
	cnt := g.mapSize("envn", 4)
	n := g.envMap("envval", cnt)
	// rebuild through mapping() to get merges: envMap used mergeSort "" - redo with sort
	// (cheap trick: insert a merge entry here)
	if g.C.Anchors && len(g.live(g.anchors["map:"+sort])) > 0 && g.coin("envmerge?", 3) {
		pool := g.live(g.anchors["map:"+sort])
		src := pick(g, "envsrc", pool)
		at := g.intn("envmergeAt", 0, len(n.Content)/2) * 2
		var v *yaml.Node = AliasNode(src)
		if len(pool) > 1 && g.coin("env2src", 2) {
			other := pick(g, "envsrc2", pool)
			v = SeqNode(true, AliasNode(src), AliasNode(other))
			g.feat("merge-multi")
		}
		c := append([]*yaml.Node{}, n.Content[:at]...)
		c = append(c, MergeKey(), v)
		c = append(c, n.Content[at:]...)
		n.Content = c
		g.feat("merge")
		g.feat("merge:" + sort)
	}
	g.register(n, sort)
	if n.Anchor != "" {
		g.anchors["map:"+sort] = append(g.anchors["map:"+sort], n)
	}
	return n
}

func (g *G) pluginSrc() string {
	if g.C.PluginSrc != nil {
		return g.C.PluginSrc(g.T)
	}
	var p plug.Src
	if g.C.OddSources && g.coin("oddsrc", 8) {
		p = plug.GenOdd().Draw(g.T, "oddplugin")
		g.feat("plugin-source-odd-3+segments")
	} else {
		p = plug.Gen().Draw(g.T, "plugin")
	}
	g.Canon[p.Text] = p.Canon
	return p.Text
}

// CanonSource looks up the canonical form of a generated plugin source.
func (g *G) CanonSource(s string) (string, bool) {
	c, ok := g.Canon[s]
	return c, ok
}

func (g *G) pluginConfig() *yaml.Node {
	if a := g.alias("cfg"); a != nil {
		return a
	}
	var n *yaml.Node
	if g.C.EmptyCfgBias && g.coin("emptycfgbias", 3) {
		if g.coin("emptyseq", 2) {
			g.feat("cfg-empty-seq")
			return SeqNode(true)
		}
		g.feat("cfg-empty-map")
		return MapNode(true)
	}
	switch g.intn("cfgform", 0, 9) {
	case 0:
		g.feat("cfg-null")
		return Plain(pick(g, "nulltext", nullTexts))
	case 1:
		g.feat("cfg-empty-map")
		return MapNode(true)
	case 2:
		g.feat("cfg-empty-seq")
		return SeqNode(true)
	case 3:
		g.feat("cfg-scalar")
		return g.scalarAny("cfgval")
	default:
		n = g.AnyMap(1, g.mapSize("cfgn", 4))
		if len(n.Content) > 0 {
			g.feat("cfg-map")
		}
	}
	g.register(n, "cfg")
	return n
}

// plugins: null / [] / list (bare strings, single- and multi-entry maps) / legacy mapping.
func (g *G) plugins() *yaml.Node {
	if a := g.alias("plugins"); a != nil {
		return a
	}
	usedSrc := map[string]bool{}
	var order []string
	// separate reports whether the entry being generated is a list item of its own (one mapping per
	// item, or a bare string): only there may a source repeat an earlier one letter for letter
	separate := false
	src := func() (out string) {
		defer func() { order = append(order, out) }()
		if separate && g.C.PluginSrc == nil && len(order) > 0 && g.coin("exact-duplicate", 8) {
			g.feat("plugin-twice-same-spelling")
			return pick(g, "exactdupof", order)
		}
		// the same plugin a second time under its other spelling (short form earlier, canonical form
		// now): two entries whose keys coincide once sources are written canonically
		if g.C.PluginSrc == nil && len(order) > 0 && g.coin("respelled-duplicate", 6) {
			prev := pick(g, "dupof", order)
			if c, ok := g.Canon[prev]; ok && c != prev && !usedSrc[c] && c != "" {
				usedSrc[c] = true
				g.Canon[c] = c
				g.feat("plugin-twice-under-two-spellings")
				return c
			}
		}
		for i := 0; i < 5; i++ {
			s := g.pluginSrc()
			if s != "" && !usedSrc[s] && (s != "<<") {
				usedSrc[s] = true
				return s
			}
		}
		s := fmt.Sprintf("plugin-%d", len(usedSrc))
		usedSrc[s] = true
		g.Canon[s] = "github.com/buildkite-plugins/" + s + "-buildkite-plugin"
		return s
	}
	var n *yaml.Node
	switch g.intn("pform", 0, 9) {
	case 0:
		g.feat("plugins-null")
		return Plain("null")
	case 1:
		g.feat("plugins-empty")
		return SeqNode(true)
	case 2, 3:
		// legacy mapping form: order matters
		g.feat("plugins-legacy-map")
		cnt := g.intn("np", 1, 4)
		n = MapNode(g.coin("flow", 5))
		for i := 0; i < cnt; i++ {
			n.Content = append(n.Content, g.strNode(src()), g.pluginConfig())
		}
	default:
		cnt := g.intn("np", 1, 4)
		n = SeqNode(false)
		for i := 0; i < cnt; i++ {
			pitem := g.intn("pitem", 0, 5)
			separate = pitem != 1
			switch pitem {
			case 0:
				g.feat("plugin-bare-string")
				n.Content = append(n.Content, g.strNode(src()))
			case 1:
				g.feat("plugin-multi-entry")
				m := MapNode(g.coin("flow", 5))
				for j, k := 0, g.intn("nent", 2, 3); j < k; j++ {
					m.Content = append(m.Content, g.strNode(src()), g.pluginConfig())
				}
				n.Content = append(n.Content, m)
			default:
				n.Content = append(n.Content, MapNode(g.coin("flow", 5), g.strNode(src()), g.pluginConfig()))
			}
		}
	}
	g.register(n, "plugins")
	return n
}

func (g *G) dimName(used map[string]bool) (string, bool) {
	for i := 0; i < 6; i++ {
		var d string
		switch g.intn("dimkind", 0, 4) {
		case 0, 1, 2:
			d = pick(g, "dim", []string{"os", "arch", "version", "a", "b", "go.version", "node-version", "X_1"})
		default:
			d = g.s("dim")
		}
		if d == "" || d == "<<" || used[d] || len(d) > MaxKeyLen {
			continue
		}
		used[d] = true
		return d, true
	}
	return "", false
}

func (g *G) valueList(role string, lo int) *yaml.Node {
	if g.coin("dimscalar", 5) {
		g.feat("dim-scalar")
		return g.typedNN(role)
	}
	n := SeqNode(g.coin("flow", 2))
	c := g.intn("nvals", lo, 3)
	if g.coin("longlist", 5) {
		// a dimension with many values (beyond any small-list threshold or backend limit)
		c = g.intn("nvalslong", 15, 40)
		g.feat("dimension-with-many-values")
	}
	for i := 0; i < c; i++ {
		n.Content = append(n.Content, g.typedNN(role))
	}
	return n
}

// withScalar: adjustment values admit only string, int and bool.
func (g *G) withScalar() *yaml.Node {
	switch g.intn("withk", 0, 5) {
	case 0:
		return Plain(pick(g, "int", intTexts))
	case 1:
		return Plain(pick(g, "bool", boolTexts))
	}
	return g.str("dimval")
}

func (g *G) matrix() *yaml.Node {
	if a := g.alias("matrix"); a != nil {
		return a
	}
	form := g.intn("mform", 0, 11)
	var n *yaml.Node
	switch {
	case form == 0:
		g.feat("matrix-null")
		return Plain("null")
	case form == 1 && g.C.EmptyMatrix:
		g.feat("matrix-empty")
		if g.coin("emptyseq", 2) {
			return SeqNode(true)
		}
		return MapNode(true)
	case form < 5:
		g.feat("matrix-list")
		n = g.valueList("dimval", 1)
		if n.Kind != yaml.SequenceNode {
			n = SeqNode(true, n)
		}
	default:
		used := map[string]bool{}
		var plan []ent
		var dims []string
		anon := g.coin("anon", 3)
		// a mapping-form matrix with no dimensions at all: `setup` absent, null or {} - next to
		// adjustments and / or other keys, so that the matrix is not empty as a whole
		noDims := 0
		if g.C.EmptyMatrix && g.coin("nodims", 6) {
			noDims = g.intn("nodimsform", 1, 3)
			g.feat("matrix-no-dimensions")
		}
		if noDims != 1 {
			plan = append(plan, ent{key: "setup", gen: func() *yaml.Node {
				if noDims == 2 {
					return Plain("null")
				}
				if noDims == 3 {
					return MapNode(true)
				}
				if anon {
					g.feat("matrix-setup-list")
					lo := 1
					if g.C.EmptyMatrix {
						lo = 0
					}
					l := g.valueList("dimval", lo)
					if l.Kind != yaml.SequenceNode {
						l = SeqNode(true, l)
					}
					if len(l.Content) < 15 && g.coin("longsetuplist", 3) {
						// (this spelling is written back as a bare list when nothing else is in the matrix: the
						// two readers must agree on lists of every length)
						for i, c := 0, g.intn("nvalslong2", 15, 40); i < c; i++ {
							l.Content = append(l.Content, g.typedNN("dimval"))
						}
						g.feat("dimension-with-many-values")
					}
					dims = []string{""}
					if g.coin("anonbyname", 3) {
						// the anonymous dimension under its own name, the empty key, and nothing else: the third
						// spelling of a plain list (always written back out as a list); with a blank value now
						// and then, which is a value like any other
						g.feat("matrix-anonymous-by-name")
						if g.coin("blankvalue", 2) {
							at := g.intn("blankat", 0, len(l.Content))
							l.Content = append(l.Content[:at:at], append([]*yaml.Node{Scalar("!!str", "", yaml.DoubleQuotedStyle)}, l.Content[at:]...)...)
						}
						return MapNode(g.coin("flow", 2), Scalar("!!str", "", yaml.DoubleQuotedStyle), l)
					}
					return l
				}
				g.feat("matrix-setup-map")
				du := map[string]bool{}
				var dp []ent
				if g.coin("mixed-anon", 5) {
					// the anonymous dimension written explicitly (key "") next to named ones
					dims = append(dims, "")
					dp = append(dp, ent{key: "", gen: func() *yaml.Node { return g.valueList("dimval", 1) }})
					g.feat("matrix-mixed-anonymous-named")
				}
				for i, c := 0, g.intn("ndims", 1, 3); i < c; i++ {
					d, ok := g.dimName(du)
					if !ok {
						continue
					}
					dims = append(dims, d)
					dp = append(dp, ent{key: d, gen: func() *yaml.Node {
					if g.C.EmptyMatrix && g.coin("dimnull", 10) {
						// a dimension declared without values: `os: ~`
						g.feat("matrix-dimension-null")
						return Plain("null")
					}
					return g.valueList("dimval", 0)
				}})
				}
				return g.mapping("dims", dp)
			}})
		}
		used["setup"] = true
		if g.coin("adj?", 2) || (noDims != 0 && g.intn("nodimsadj", 0, 3) > 0) {
			used["adjustments"] = true
			plan = append(plan, ent{key: "adjustments", gen: func() *yaml.Node {
				g.feat("matrix-adjustments")
				l := SeqNode(false)
				for i, c := 0, g.intn("nadj", 1, 3); i < c; i++ {
					au := set("with")
					var ap []ent
					// an adjustment may leave `with` out altogether (it then names no dimension)
					noWith := g.C.EmptyMatrix && g.coin("nowith", 8)
					if noWith {
						g.feat("adjustment-without-with")
					}
					if !noWith {
						ap = append(ap, ent{key: "with", gen: func() *yaml.Node {
							if g.C.EmptyMatrix && g.coin("withnull", 12) {
								g.feat("adjustment-with-null")
								return Plain("null")
							}
							if len(dims) == 1 && dims[0] == "" && g.coin("withscalar", 4) != true {
								g.feat("adj-with-scalar")
								return g.withScalar()
							}
							var wp []ent
							for _, d := range dims {
								if d == "" && len(dims) == 1 {
									continue
								}
								wp = append(wp, ent{key: d, gen: func() *yaml.Node { return g.withScalar() }})
							}
							if len(wp) == 0 && !(noDims != 0 && g.coin("withempty", 2)) {
								wp = append(wp, ent{key: "os", gen: func() *yaml.Node { return g.withScalar() }})
							}
							return g.mapping("", wp)
						}})
					}
					skipForm := g.intn("skip", 0, 4)
					if g.C.OddSkip && g.coin("oddskip", 4) {
						// `skip` holds whatever was written: a list or a mapping is legal (and truthy)
						au["skip"] = true
						ap = append(ap, ent{key: "skip", gen: func() *yaml.Node {
							if g.coin("skipmap", 2) {
								return g.AnyMap(2, g.intn("skipmapn", 1, 3))
							}
							l := SeqNode(g.coin("flow", 2))
							for i, c := 0, g.intn("skiplistn", 1, 3); i < c; i++ {
								l.Content = append(l.Content, g.Any(2))
							}
							return l
						}})
						g.feat("adj-skip-collection")
						skipForm = 4
					}
					switch skipForm {
					case 0:
						au["skip"] = true
						ap = append(ap, ent{key: "skip", gen: func() *yaml.Node { return Plain(pick(g, "skipbool", []string{"true", "false"})) }})
					case 1:
						au["skip"] = true
						ap = append(ap, ent{key: "skip", gen: func() *yaml.Node {
							for {
								s := g.s("skip")
								if s != "" {
									return StrNode(s)
								}
							}
						}})
						g.feat("adj-skip-string")
					}
					if g.coin("softfail", 3) {
						au["soft_fail"] = true
						ap = append(ap, ent{key: "soft_fail", gen: func() *yaml.Node { return g.Any(2) }})
					}
					ap = append(ap, g.extras(au, set("with", "skip"), g.intn("adjextras", 0, 1))...)
					l.Content = append(l.Content, g.mapping("", g.shuffle(ap)))
				}
				return l
			}})
		}
		// setup must be generated before adjustments (dims), so no shuffle of those two; extras around them
		ex := g.extras(used, set("setup", "adjustments"), g.intn("mextras", 0, 1))
		plan = append(plan, ex...)
		n = g.mapping("", plan)
	}
	g.register(n, "matrix")
	return n
}

func (g *G) cache() *yaml.Node {
	if a := g.alias("cache"); a != nil {
		return a
	}
	var n *yaml.Node
	switch g.intn("cform", 0, 9) {
	case 0:
		g.feat("cache-null")
		return Plain("null")
	case 1:
		g.feat("cache-true")
		return Plain("true")
	case 2:
		g.feat("cache-false")
		return Plain("false")
	case 3:
		g.feat("cache-string")
		return g.str("cache")
	case 4:
		g.feat("cache-list")
		n = SeqNode(g.coin("flow", 2))
		for i, c := 0, g.intn("npaths", 0, 3); i < c; i++ {
			n.Content = append(n.Content, g.typed("cache"))
		}
	default:
		g.feat("cache-map")
		used := map[string]bool{}
		var plan []ent
		if g.coin("paths?", 2) {
			used["paths"] = true
			plan = append(plan, ent{key: "paths", gen: func() *yaml.Node {
				if g.coin("pathscalar", 3) {
					return g.typed("cache")
				}
				l := SeqNode(g.coin("flow", 2))
				for i, c := 0, g.intn("npaths", 0, 3); i < c; i++ {
					l.Content = append(l.Content, g.typed("cache"))
				}
				return l
			}})
		}
		for _, k := range []string{"name", "size"} {
			if g.coin(k+"?", 2) {
				used[k] = true
				plan = append(plan, ent{key: k, gen: func() *yaml.Node { return g.typed("cache") }})
			}
		}
		if g.C.CacheDisabledKey && g.coin("disabledkey", 3) {
			// the mapping form may say `disabled:` itself, next to settings that are still strings of
			// the pipeline (outside the normal-form checks' grammar, inside C04's "all parsed pipelines")
			used["disabled"] = true
			g.feat("cache-map-with-disabled-key")
			plan = append(plan, ent{key: "disabled", gen: func() *yaml.Node { return Plain(pick(g, "disabledval", []string{"true", "true", "false"})) }})
		}
		plan = append(plan, g.extras(used, set("paths", "name", "size", "disabled"), g.intn("cextras", 0, 2))...)
		n = g.mapping("", g.shuffle(plan))
	}
	g.register(n, "cache")
	return n
}

func (g *G) signatureBlock() *yaml.Node {
	g.feat("signature")
	fields := SeqNode(g.coin("flow", 2))
	for i, c := 0, g.intn("nsf", 0, 4); i < c; i++ {
		fields.Content = append(fields.Content, g.str("sigfield"))
	}
	plan := []ent{
		{key: "algorithm", gen: func() *yaml.Node {
			// the name of a real algorithm half the time: a block left behind by an earlier signing run
			if g.coin("realalg", 2) {
				return g.strNode(pick(g, "sigalgname", []string{"EdDSA", "ES512", "PS512", "ES256", "HS512"}))
			}
			return g.str("sigalg")
		}},
		{key: "signed_fields", gen: func() *yaml.Node { return fields }},
		{key: "value", gen: func() *yaml.Node { return g.str("sigvalue") }},
	}
	return g.mapping("", g.shuffle(plan))
}

func (g *G) contentsStep(kindKey string, kindVal func() *yaml.Node, typeName string, excl map[string]bool) *yaml.Node {
	used := map[string]bool{}
	var plan []ent
	if typeName != "" {
		used["type"] = true
		plan = append(plan, ent{key: "type", gen: func() *yaml.Node { return g.strNode(typeName) }})
		g.feat("type-key")
	}
	if kindKey != "" {
		used[kindKey] = true
		plan = append(plan, ent{key: kindKey, gen: kindVal})
	}
	plan = append(plan, g.extras(used, union(kindKeySet, excl), g.mapSize("cextras", 3))...)
	return g.mapping("any", g.shuffle(plan))
}

func (g *G) waitStep() *yaml.Node {
	switch g.intn("waitform", 0, 4) {
	case 0, 1:
		g.feat("scalar-step")
		return g.strNode(pick(g, "waitscalar", []string{"wait", "waiter"}))
	case 2:
		return g.contentsStep("", nil, pick(g, "waittype", []string{"wait", "waiter"}), nil)
	}
	return g.contentsStep(pick(g, "waitkey", []string{"wait", "waiter"}), func() *yaml.Node {
		if g.coin("waitnull", 2) {
			return Plain(pick(g, "nulltext", nullTexts))
		}
		return g.scalarAny("any")
	}, "", nil)
}

func (g *G) inputStep() *yaml.Node {
	switch g.intn("inputform", 0, 4) {
	case 0:
		g.feat("scalar-step")
		return g.strNode(pick(g, "inputscalar", []string{"block", "input", "manual"}))
	case 1:
		return g.contentsStep("", nil, pick(g, "inputtype", []string{"block", "input", "manual"}), nil)
	}
	return g.contentsStep(pick(g, "inputkey", []string{"block", "input", "manual"}), func() *yaml.Node { return g.scalarAny("label") }, "", nil)
}

func (g *G) triggerStep() *yaml.Node {
	if g.coin("triggertype", 4) {
		return g.contentsStep("", nil, "trigger", nil)
	}
	return g.contentsStep("trigger", func() *yaml.Node { return g.scalarAny("trigger") }, "", nil)
}

var groupModelled = set("key", "id", "identifier", "group", "label", "name", "steps")

func (g *G) groupStep(depth int) *yaml.Node {
	g.feat("group")
	if depth >= 1 {
		g.feat("nested-group")
	}
	used := map[string]bool{}
	var plan []ent
	add := func(k string, f func() *yaml.Node) {
		used[k] = true
		plan = append(plan, ent{key: k, gen: f})
	}
	if g.coin("grouptype", 6) {
		add("type", func() *yaml.Node { return g.strNode("group") })
		g.feat("type-key")
		if g.coin("groupkey?", 2) {
			add("group", func() *yaml.Node { return g.groupName() })
		}
	} else {
		add("group", func() *yaml.Node { return g.groupName() })
	}
	for _, k := range []string{"label", "name"} {
		if g.coin(k+"?", 4) {
			add(k, func() *yaml.Node { return g.typed("label") })
			g.feat("alias-key:group-" + k)
		}
	}
	for _, k := range []string{"key", "id", "identifier"} {
		if g.coin(k+"?", 5) {
			add(k, func() *yaml.Node { return g.typed("key") })
		}
	}
	switch g.intn("gsteps", 0, 7) {
	case 0:
		// absent
	case 1:
		add("steps", func() *yaml.Node { return Plain("null") })
	default:
		add("steps", func() *yaml.Node { return g.steps(depth+1, false) })
	}
	plan = append(plan, g.extras(used, union(kindKeySet, groupModelled), g.mapSize("gextras", 2))...)
	return g.mapping("", g.shuffle(plan))
}

func (g *G) groupName() *yaml.Node {
	if g.coin("groupnull", 4) {
		return Plain(pick(g, "nulltext", nullTexts))
	}
	return g.typed("group")
}

func (g *G) unknownStep() *yaml.Node {
	g.feat("unknown-step")
	switch g.intn("unkform", 0, 2) {
	case 0:
		for {
			s := g.s("scalar-step")
			switch s {
			case "wait", "waiter", "block", "input", "manual":
				continue
			}
			return StrNode(s)
		}
	case 1:
		// mapping with no inferable key
		return g.contentsStep("", nil, "", nil)
	default:
		return g.contentsStep("", nil, pick(g, "unktype", []string{"foo", "", "Command", "wait ", "deploy"}), nil)
	}
}
