package doc

import (
	"bytes"
	"errors"
	"fmt"
	"strings"

	"gopkg.in/yaml.v3"

	"verif/harness/internal/gt"
	"verif/harness/internal/strs"
)

// Doc is a rendered document together with its reference meaning.
type Doc struct {
	Root    *yaml.Node // generated tree (DocumentNode)
	YAML    []byte
	Parsed  *yaml.Node // yaml.v3's parse of YAML
	Res     *Resolved  // reference resolution of Parsed
	Meaning *gt.Node   // == Res.Val
	Feat    map[string]int
}

// ErrRenderFault marks a generator / third-party emitter fault: the rendered
// text does not read back (through yaml.v3 and the reference resolver) as the
// tree that was generated. Such cases are discarded and counted, never reported.
var ErrRenderFault = errors.New("render fault")

// Render serialises root with yaml.v3's emitter and self-checks the result.
func Render(root *yaml.Node, indent int, budget int) (*Doc, error) {
	if root.Kind != yaml.DocumentNode {
		root = DocNode(root)
	}
	fixFlow(root, false, map[*yaml.Node]bool{})
	var buf bytes.Buffer
	enc := yaml.NewEncoder(&buf)
	if indent > 0 {
		enc.SetIndent(indent)
	}
	if err := safely(func() error { return enc.Encode(root) }); err != nil {
		return nil, fmt.Errorf("%w: encode: %v", ErrRenderFault, err)
	}
	enc.Close()
	d := &Doc{Root: root, YAML: buf.Bytes()}
	var parsed yaml.Node
	if err := yaml.Unmarshal(d.YAML, &parsed); err != nil {
		return nil, fmt.Errorf("%w: emitted text does not parse: %v", ErrRenderFault, err)
	}
	d.Parsed = &parsed
	want, err1 := Resolve(root, budget)
	got, err2 := Resolve(&parsed, budget)
	if err1 != nil || err2 != nil {
		if errors.Is(err1, ErrValueCycle) && errors.Is(err2, ErrValueCycle) {
			d.Res = got
			return d, ErrValueCycle
		}
		if err1 != nil && err2 != nil {
			return nil, fmt.Errorf("%w: %v", ErrOutside, err2)
		}
		return nil, fmt.Errorf("%w: resolve disagrees: %v vs %v", ErrRenderFault, err1, err2)
	}
	if dd := gt.Diff(want.Val, got.Val, gt.Opt{}); dd != "" || !sameKinds(want.Val, got.Val) {
		return nil, fmt.Errorf("%w: %s", ErrRenderFault, dd)
	}
	d.Res = got
	d.Meaning = got.Val
	return d, nil
}

func safely(f func() error) (err error) {
	defer func() {
		if r := recover(); r != nil {
			err = fmt.Errorf("panic: %v", r)
		}
	}()
	return f()
}

func sameKinds(a, b *gt.Node) bool {
	if a.Kind != b.Kind {
		// ints that differ only in representation are the same number
		if a.IsNum() && b.IsNum() && (a.Kind == gt.Float) == (b.Kind == gt.Float) {
			return true
		}
		return false
	}
	for i := range a.Items {
		if !sameKinds(a.Items[i], b.Items[i]) {
			return false
		}
	}
	for i := range a.Vals {
		if !sameKinds(a.Vals[i], b.Vals[i]) {
			return false
		}
	}
	return true
}

// JSONMeaning is the meaning of the JSON rendering of a document: the same
// tree with timestamps as the strings JSON carries them as.
func JSONMeaning(n *gt.Node) *gt.Node {
	c := n.Clone()
	gt.Walk(c, func(_ string, x *gt.Node) {
		if x.Kind == gt.Time {
			x.Kind = gt.Str
			x.S = x.T.Format("2006-01-02T15:04:05.999999999Z07:00")
		}
	})
	return c
}

// JSON renders the meaning as JSON text (aliases and merges resolved).
func (d *Doc) JSON() ([]byte, *gt.Node, error) {
	m := JSONMeaning(d.Meaning)
	b, err := gt.ToJSON(m)
	return b, m, err
}

// HasYAMLUnsafeString reports whether any string (key or value) in the tree
// falls under the YAML-leg carve-out.
func HasString(n *gt.Node, pred func(string) bool) bool {
	found := false
	gt.Walk(n, func(_ string, x *gt.Node) {
		if x.Kind == gt.Str && pred(x.S) {
			found = true
		}
		if x.Kind == gt.Map {
			for _, k := range x.Keys {
				if pred(k) {
					found = true
				}
			}
		}
	})
	return found
}

// fixFlow: yaml.v3's emitter cannot write an untagged plain scalar containing
// ':' (a timestamp with a time part) inside a flow collection - it quotes it,
// which turns it into a string. Such scalars are replaced by a date-only
// timestamp before rendering, so the generated tree and the text agree.
func fixFlow(n *yaml.Node, inFlow bool, seen map[*yaml.Node]bool) {
	if n == nil || seen[n] {
		return
	}
	seen[n] = true
	if n.Kind == yaml.ScalarNode {
		if inFlow && n.Tag == "" && strings.Contains(n.Value, ":") {
			n.Value = "2001-01-01"
		}
		// multi-line strings that begin with white space do not survive the
		// emitter's block styles (the C09 carve-out): force double quotes so the
		// *input* document can still carry them.
		if n.Tag == "!!str" && !strs.YAMLLegOK(n.Value) {
			n.Style = yaml.DoubleQuotedStyle
		}
		return
	}
	if n.Kind == yaml.AliasNode {
		return
	}
	f := inFlow || n.Style&yaml.FlowStyle != 0
	for _, c := range n.Content {
		fixFlow(c, f, seen)
	}
}

// HasKey reports whether any mapping key in the tree satisfies pred.
func HasKey(n *gt.Node, pred func(string) bool) bool {
	found := false
	gt.Walk(n, func(_ string, x *gt.Node) {
		if x.Kind == gt.Map {
			for _, k := range x.Keys {
				if pred(k) {
					found = true
				}
			}
		}
	})
	return found
}
