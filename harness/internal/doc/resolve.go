// Package doc generates pipeline documents as yaml.Node trees (with styles,
// anchors, aliases and merge keys), renders them, and owns the reference
// semantics used as oracles: the anchor/alias/merge resolver (this file) and the
// normal-form model (nf.go). Nothing here calls go-pipeline.
package doc

import (
	"errors"
	"fmt"

	"gopkg.in/yaml.v3"

	"verif/harness/internal/gt"
)

var (
	// ErrValueCycle: an alias reaches a node that is still being evaluated as a
	// value (the document denotes an infinite tree) - decoding must fail.
	ErrValueCycle = errors.New("value cycle")
	// ErrOutside: the document uses something the reference model does not
	// define (null / float / collection keys, non-mapping merge sources). Such
	// cases are discarded by the callers, never reported.
	ErrOutside = errors.New("outside the reference model")
)

// Resolved is the outcome of Resolve.
type Resolved struct {
	Val *gt.Node
	// MergeCycle is set when a merge source was cut because it was already on
	// the merge stack (tolerated; contributes nothing).
	MergeCycle bool
	// Stats for non-triviality rules.
	Merges, MergeSources, Aliases, OverlapHidden, NestedMerges int
	Nodes                                                      int // expanded node count
}

type resolver struct {
	onStack map[*yaml.Node]bool
	out     *Resolved
	budget  int
}

// ErrTooBig: expansion exceeded the node budget.
var ErrTooBig = errors.New("expansion too large")

// Resolve evaluates a parsed YAML node tree per the YAML merge-key
// specification (https://yaml.org/type/merge.html): an alias denotes a fresh
// copy of its target; explicit keys beat merged keys; earlier merge sources
// beat later ones; merged keys stand where the merge key stood. budget bounds
// the number of expanded nodes.
func Resolve(n *yaml.Node, budget int) (*Resolved, error) {
	r := &resolver{onStack: map[*yaml.Node]bool{}, out: &Resolved{}, budget: budget}
	v, err := r.value(n)
	if err != nil {
		return r.out, err
	}
	r.out.Val = v
	return r.out, nil
}

func (r *resolver) value(n *yaml.Node) (*gt.Node, error) {
	if n == nil {
		return gt.NullN(), nil
	}
	r.out.Nodes++
	if r.out.Nodes > r.budget {
		return nil, ErrTooBig
	}
	switch n.Kind {
	case yaml.DocumentNode:
		if len(n.Content) == 0 {
			return gt.NullN(), nil
		}
		if len(n.Content) > 1 {
			return nil, ErrOutside
		}
		return r.value(n.Content[0])
	case yaml.AliasNode:
		r.out.Aliases++
		return r.value(n.Alias)
	case yaml.ScalarNode:
		var v any
		if err := n.Decode(&v); err != nil {
			return nil, fmt.Errorf("%w: scalar %q does not decode: %v", ErrOutside, n.Value, err)
		}
		return gt.FromGo(v)
	case yaml.SequenceNode:
		if r.onStack[n] {
			return nil, ErrValueCycle
		}
		r.onStack[n] = true
		defer delete(r.onStack, n)
		out := &gt.Node{Kind: gt.Seq, Items: []*gt.Node{}}
		for _, c := range n.Content {
			v, err := r.value(c)
			if err != nil {
				return nil, err
			}
			out.Items = append(out.Items, v)
		}
		return out, nil
	case yaml.MappingNode:
		if r.onStack[n] {
			return nil, ErrValueCycle
		}
		r.onStack[n] = true
		defer delete(r.onStack, n)
		ps, err := r.pairs(n, map[*yaml.Node]bool{}, 0)
		if err != nil {
			return nil, err
		}
		out := &gt.Node{Kind: gt.Map, Ordered: true}
		for _, p := range ps {
			v, err := r.value(p.val)
			if err != nil {
				return nil, err
			}
			out.Keys = append(out.Keys, p.key)
			out.Vals = append(out.Vals, v)
		}
		return out, nil
	}
	return nil, ErrOutside
}

type kv struct {
	key string
	val *yaml.Node
}

// CanonKey is the reference key canonicalisation: strings as written, integers
// in decimal, booleans as true/false. Anything else is outside the model.
func CanonKey(k *yaml.Node) (string, error) {
	for k.Kind == yaml.AliasNode {
		k = k.Alias
	}
	if k.Kind != yaml.ScalarNode {
		return "", fmt.Errorf("%w: collection as key", ErrOutside)
	}
	var v any
	if err := k.Decode(&v); err != nil {
		return "", fmt.Errorf("%w: key does not decode", ErrOutside)
	}
	switch t := v.(type) {
	case string:
		return t, nil
	case bool:
		if t {
			return "true", nil
		}
		return "false", nil
	case int:
		return fmt.Sprintf("%d", t), nil
	case int64:
		return fmt.Sprintf("%d", t), nil
	case uint64:
		return fmt.Sprintf("%d", t), nil
	}
	return "", fmt.Errorf("%w: key of type %T", ErrOutside, v)
}

func isMerge(k *yaml.Node) bool { return k.Kind == yaml.ScalarNode && k.Tag == "!!merge" }

// pairs returns the ordered key/value-node pairs a mapping node denotes,
// merges included. mstack holds the mappings currently being merged.
func (r *resolver) pairs(n *yaml.Node, mstack map[*yaml.Node]bool, depth int) ([]kv, error) {
	if mstack[n] {
		r.out.MergeCycle = true
		return nil, nil
	}
	mstack[n] = true
	defer delete(mstack, n)
	if len(n.Content)%2 != 0 {
		return nil, ErrOutside
	}
	present := map[string]bool{}
	for i := 0; i < len(n.Content); i += 2 {
		if isMerge(n.Content[i]) {
			continue
		}
		k, err := CanonKey(n.Content[i])
		if err != nil {
			return nil, err
		}
		present[k] = true
	}
	var out []kv
	pos := map[string]int{}
	for i := 0; i < len(n.Content); i += 2 {
		k, v := n.Content[i], n.Content[i+1]
		if !isMerge(k) {
			ck, _ := CanonKey(k)
			if _, dup := pos[ck]; dup {
				// a key written twice in one mapping is not YAML the model defines (yaml.v3's own
				// decoder rejects it); such documents are outside, never compared
				return nil, fmt.Errorf("%w: duplicate key %q", ErrOutside, ck)
			}
			pos[ck] = len(out)
			out = append(out, kv{ck, v})
			continue
		}
		r.out.Merges++
		if depth > 0 {
			r.out.NestedMerges++
		}
		srcs, err := r.mergeSources(v, map[*yaml.Node]bool{})
		if err != nil {
			return nil, err
		}
		for _, s := range srcs {
			r.out.MergeSources++
			ps, err := r.pairs(s, mstack, depth+1)
			if err != nil {
				return nil, err
			}
			for _, p := range ps {
				if present[p.key] {
					r.out.OverlapHidden++
					continue
				}
				present[p.key] = true
				pos[p.key] = len(out)
				out = append(out, p)
			}
		}
	}
	return out, nil
}

// mergeSources flattens a merge value (alias, mapping, or sequences of those)
// into its source mappings in order. A sequence or alias that is reached again
// while it is still being flattened is a merge cycle: it contributes nothing.
func (r *resolver) mergeSources(v *yaml.Node, onPath map[*yaml.Node]bool) ([]*yaml.Node, error) {
	if onPath[v] {
		r.out.MergeCycle = true
		return nil, nil
	}
	switch v.Kind {
	case yaml.AliasNode:
		onPath[v] = true
		defer delete(onPath, v)
		return r.mergeSources(v.Alias, onPath)
	case yaml.MappingNode:
		return []*yaml.Node{v}, nil
	case yaml.SequenceNode:
		onPath[v] = true
		defer delete(onPath, v)
		var out []*yaml.Node
		for _, c := range v.Content {
			s, err := r.mergeSources(c, onPath)
			if err != nil {
				return nil, err
			}
			out = append(out, s...)
		}
		return out, nil
	}
	return nil, fmt.Errorf("%w: merge source of kind %d", ErrOutside, v.Kind)
}

// ExpandedSize returns the number of nodes the document expands to when every
// alias is followed (memoised), capped at limit+1, and whether an alias
// reaches one of its own ancestors (a cycle; the back-edge counts as one node).
func ExpandedSize(n *yaml.Node, limit int) (int, bool) {
	memo := map[*yaml.Node]int{}
	on := map[*yaml.Node]bool{}
	cyclic := false
	var size func(n *yaml.Node) int
	size = func(n *yaml.Node) int {
		if n == nil {
			return 0
		}
		if on[n] {
			cyclic = true
			return 1
		}
		if s, ok := memo[n]; ok {
			return s
		}
		on[n] = true
		s := 1
		if n.Kind == yaml.AliasNode {
			s += size(n.Alias)
		}
		for _, c := range n.Content {
			s += size(c)
			if s > limit {
				s = limit + 1
				break
			}
		}
		delete(on, n)
		memo[n] = s
		return s
	}
	return size(n), cyclic
}
