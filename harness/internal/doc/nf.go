package doc

import (
	"fmt"
	"strings"

	"verif/harness/internal/gt"
)

// This file is the normal-form model (DESIGN §2.5): from the reference meaning
// of a document to the data json.Marshal / yaml.Marshal of the parsed pipeline
// must carry. It is written from the property statements, the struct tags and
// the doc comments of the library - it never calls the library.

// Step kinds.
const (
	KCommand = "command"
	KWait    = "wait"
	KInput   = "input"
	KTrigger = "trigger"
	KGroup   = "group"
	KUnknown = "unknown"
)

// KindOfStep is the C15 rule table: `type` when present, otherwise the first
// matching key family. why is "" or "unknown-type" / "no-inference".
func KindOfStep(s *gt.Node) (kind, why string) {
	if s.Kind == gt.Str {
		switch s.S {
		case "wait", "waiter":
			return KWait, ""
		case "block", "input", "manual":
			return KInput, ""
		}
		return KUnknown, "unknown-type"
	}
	if s.Kind != gt.Map {
		return KUnknown, "not-a-step"
	}
	if t, ok := s.Get("type"); ok {
		if t.Kind != gt.Str {
			return KUnknown, "non-string-type"
		}
		switch t.S {
		case "command", "script":
			return KCommand, ""
		case "wait", "waiter":
			return KWait, ""
		case "block", "input", "manual":
			return KInput, ""
		case "trigger":
			return KTrigger, ""
		case "group":
			return KGroup, ""
		}
		return KUnknown, "unknown-type"
	}
	switch {
	case s.Has("command") || s.Has("commands") || s.Has("plugins"):
		return KCommand, ""
	case s.Has("wait") || s.Has("waiter"):
		return KWait, ""
	case s.Has("block") || s.Has("input") || s.Has("manual"):
		return KInput, ""
	case s.Has("trigger"):
		return KTrigger, ""
	case s.Has("group"):
		return KGroup, ""
	}
	return KUnknown, "no-inference"
}

// Sch is the shape skeleton of an expected pipeline: step kinds, recursively.
type Sch struct {
	Kind  string
	Steps []*Sch
}

// Expect is what NF returns.
type Expect struct {
	// Trees are the acceptable outputs (more than one only where the statement
	// leaves a choice: `command` and `commands` both given).
	Trees []*gt.Node
	Steps []*Sch
	// Excluded is non-empty when the document falls in a class kept out of the
	// well-formed grammar (reached through merges); the case is discarded.
	Excluded string
	// Feature counters for non-triviality rules.
	Feat map[string]int
}

type nf struct {
	canon func(string) (string, bool)
	ex    *Expect
	alts  []altCmd
}

type altCmd struct {
	node *gt.Node // the expected command Str node
	alt  string
}

// NF computes the expected normal form. canon maps a plugin source to its
// canonical form (ok=false: unknown source - the document is excluded).
func NF(meaning *gt.Node, canon func(string) (string, bool)) *Expect {
	m := &nf{canon: canon, ex: &Expect{Feat: map[string]int{}}}
	var out *gt.Node
	switch meaning.Kind {
	case gt.Seq:
		out = gt.MapN(false)
		steps, sch := m.steps(meaning)
		out.Put("steps", steps)
		m.ex.Steps = sch
	case gt.Map:
		out = gt.MapN(false)
		for i, k := range meaning.Keys {
			v := meaning.Vals[i]
			switch k {
			case "steps":
				steps, sch := m.steps(v)
				out.Put("steps", steps)
				m.ex.Steps = sch
			case "env":
				if e := m.strMap(v, true); e != nil {
					out.Put("env", e)
				}
			default:
				out.Put(k, verbatim(v))
			}
		}
		if !out.Has("steps") {
			m.exclude("no steps key (parses with a warning)")
			out.Put("steps", gt.SeqN())
		}
	default:
		m.exclude("root is neither mapping nor sequence")
		return m.ex
	}
	m.ex.Trees = []*gt.Node{out}
	// expand the command/commands alternatives (at most 3, else excluded)
	if len(m.alts) > 3 {
		m.exclude("too many command+commands steps")
	}
	if n := len(m.alts); n > 0 && n <= 3 {
		origs := make([]string, n)
		for i, a := range m.alts {
			origs[i] = a.node.S
		}
		m.ex.Trees = nil
		for mask := 0; mask < 1<<n; mask++ {
			for i, a := range m.alts {
				if mask&(1<<i) != 0 {
					a.node.S = a.alt
				} else {
					a.node.S = origs[i]
				}
			}
			m.ex.Trees = append(m.ex.Trees, out.Clone())
		}
		for i, a := range m.alts {
			a.node.S = origs[i]
		}
	}
	return m.ex
}

func (m *nf) exclude(why string) {
	if m.ex.Excluded == "" {
		m.ex.Excluded = why
	}
}

func (m *nf) feat(f string) { m.ex.Feat[f]++ }

// verbatim: unknown data is kept exactly; nested mappings keep their order.
func verbatim(v *gt.Node) *gt.Node {
	c := v.Clone()
	gt.Walk(c, func(_ string, x *gt.Node) {
		if x.Kind == gt.Map {
			x.Ordered = true
		}
	})
	return c
}

// unordered: plugin configs are de-ordered at every level.
func unordered(v *gt.Node) *gt.Node { return gt.Unorder(v) }

// typedString: the documented conversion of a scalar at a string-typed
// position: fmt.Sprint of the decoded value, null -> zero value.
func (m *nf) typedString(v *gt.Node) string {
	switch v.Kind {
	case gt.Null:
		return ""
	case gt.Str:
		return v.S
	case gt.Bool:
		return fmt.Sprint(v.B)
	case gt.Int:
		return fmt.Sprint(v.I)
	case gt.Float:
		return fmt.Sprint(v.F)
	}
	m.exclude("ill-typed scalar at a string position: " + v.Kind.String())
	return ""
}

// strList: scalar -> [s]; null -> []; seq -> items.
func (m *nf) strList(v *gt.Node) []string {
	switch v.Kind {
	case gt.Null:
		return nil
	case gt.Seq:
		out := []string{}
		for _, x := range v.Items {
			if x.Kind == gt.Seq || x.Kind == gt.Map {
				m.exclude("nested collection in a string list")
				continue
			}
			out = append(out, m.typedString(x))
		}
		return out
	case gt.Map:
		m.exclude("mapping at a string-list position")
		return nil
	}
	return []string{m.typedString(v)}
}

func strSeq(ss []string) *gt.Node {
	n := gt.SeqN()
	for _, s := range ss {
		n.Items = append(n.Items, gt.StrN(s))
	}
	return n
}

// strMap: mapping of scalars -> mapping of strings (ordered for the pipeline env block).
func (m *nf) strMap(v *gt.Node, ordered bool) *gt.Node {
	switch v.Kind {
	case gt.Null:
		return nil
	case gt.Map:
		if len(v.Keys) == 0 {
			return nil
		}
		out := gt.MapN(ordered)
		for i, k := range v.Keys {
			if v.Vals[i].Kind == gt.Seq || v.Vals[i].Kind == gt.Map {
				m.exclude("collection as env value")
			}
			out.Put(k, gt.StrN(m.typedString(v.Vals[i])))
		}
		if len(v.Keys) > 8 {
			m.feat("big-env")
		}
		return out
	}
	m.exclude("env is not a mapping")
	return nil
}

func (m *nf) steps(v *gt.Node) (*gt.Node, []*Sch) {
	out := gt.SeqN()
	var sch []*Sch
	switch v.Kind {
	case gt.Null:
		return out, nil
	case gt.Seq:
		for _, s := range v.Items {
			n, sc := m.step(s)
			out.Items = append(out.Items, n)
			sch = append(sch, sc)
		}
		return out, sch
	}
	m.exclude("steps is not a sequence")
	return out, nil
}

func (m *nf) step(s *gt.Node) (*gt.Node, *Sch) {
	kind, _ := KindOfStep(s)
	m.feat("kind:" + kind)
	if s.Kind == gt.Str {
		if kind != KUnknown {
			m.feat("scalar-step")
		}
		return gt.StrN(s.S), &Sch{Kind: kind}
	}
	if s.Kind != gt.Map {
		m.exclude("step is neither string nor mapping")
		return verbatim(s), &Sch{Kind: KUnknown}
	}
	switch kind {
	case KCommand:
		return m.command(s), &Sch{Kind: kind}
	case KGroup:
		return m.group(s)
	case KWait, KInput, KTrigger:
		c := verbatim(s)
		c.Ordered = false // Contents is a Go map: top level unordered, nested order kept
		if len(c.Keys) == 0 {
			m.exclude("empty contents step")
		}
		m.countNested(s)
		return c, &Sch{Kind: kind}
	}
	// unknown: contents verbatim, order kept at every level
	m.countNested(s)
	return verbatim(s), &Sch{Kind: KUnknown}
}

func (m *nf) countNested(s *gt.Node) {
	for _, v := range s.Vals {
		gt.Walk(v, func(_ string, x *gt.Node) {
			if x.Kind == gt.Map && len(x.Keys) > 1 {
				m.feat("nested-ordered-map")
			}
		})
	}
}

// firstPresent returns the first key of names present in s.
func firstPresent(s *gt.Node, names ...string) (string, *gt.Node, bool) {
	for _, n := range names {
		if v, ok := s.Get(n); ok {
			return n, v, true
		}
	}
	return "", nil, false
}

func (m *nf) command(s *gt.Node) *gt.Node {
	out := gt.MapN(false)
	consumed := map[string]bool{}

	// command / commands
	cmds, hasCmds := s.Get("commands")
	cmd, hasCmd := s.Get("command")
	var joined string
	switch {
	case hasCmds && hasCmd:
		if cmd.Kind == gt.Seq || cmd.Kind == gt.Map {
			m.exclude("command+commands with a list-valued command")
		}
		joined = strings.Join(m.strList(cmds), "\n")
		consumed["commands"], consumed["command"] = true, true
		m.feat("command+commands")
	case hasCmds:
		joined = strings.Join(m.strList(cmds), "\n")
		consumed["commands"] = true
		m.feat("commands-key")
	case hasCmd:
		joined = strings.Join(m.strList(cmd), "\n")
		consumed["command"] = true
	}
	if hasCmds && cmds.Kind == gt.Seq || hasCmd && !hasCmds && cmd.Kind == gt.Seq {
		m.feat("command-list")
	}
	cnode := gt.StrN(joined)
	out.Put("command", cnode)
	if hasCmds && hasCmd {
		// the statement does not say which of the two wins: accept either join
		alt := strings.Join(m.strList(cmd), "\n")
		if alt != joined {
			m.alts = append(m.alts, altCmd{cnode, alt})
		}
	}

	// key <- key | id | identifier ; label <- label | name
	if k, v, ok := firstPresent(s, "key", "id", "identifier"); ok {
		consumed[k] = true
		out.Put("key", gt.StrN(m.typedString(v)))
		if k != "key" {
			m.feat("alias-used")
		}
		if s.Has("key") && (s.Has("id") || s.Has("identifier")) || s.Has("id") && s.Has("identifier") {
			m.feat("alias-combination")
		}
	}
	if k, v, ok := firstPresent(s, "label", "name"); ok {
		consumed[k] = true
		out.Put("label", gt.StrN(m.typedString(v)))
		if k != "label" {
			m.feat("alias-used")
		}
		if s.Has("label") && s.Has("name") {
			m.feat("alias-combination")
		}
	}
	if v, ok := s.Get("plugins"); ok {
		consumed["plugins"] = true
		if p := m.plugins(v); p != nil {
			out.Put("plugins", p)
		}
	}
	if v, ok := s.Get("env"); ok {
		consumed["env"] = true
		if e := m.strMap(v, false); e != nil {
			out.Put("env", e)
		}
	}
	if v, ok := s.Get("signature"); ok {
		consumed["signature"] = true
		if v.Kind != gt.Null {
			out.Put("signature", m.signature(v))
		}
	}
	if v, ok := s.Get("matrix"); ok {
		consumed["matrix"] = true
		if v.Kind != gt.Null {
			out.Put("matrix", m.matrix(v))
		}
	}
	if v, ok := s.Get("cache"); ok {
		consumed["cache"] = true
		if v.Kind != gt.Null {
			out.Put("cache", m.cache(v))
		}
	}
	rem := 0
	for i, k := range s.Keys {
		if consumed[k] {
			continue
		}
		out.Put(k, verbatim(s.Vals[i]))
		rem++
	}
	if rem > 8 {
		m.feat("big-remaining")
	}
	m.countNested(s)
	return out
}

func (m *nf) signature(v *gt.Node) *gt.Node {
	out := gt.MapN(false)
	if v.Kind != gt.Map {
		m.exclude("signature is not a mapping")
		return out
	}
	for _, k := range v.Keys {
		if k != "algorithm" && k != "signed_fields" && k != "value" {
			m.exclude("extra key in signature")
		}
	}
	alg, _ := v.Get("algorithm")
	val, _ := v.Get("value")
	sf, _ := v.Get("signed_fields")
	if alg == nil || val == nil || sf == nil {
		m.exclude("partial signature block")
		return out
	}
	out.Put("algorithm", gt.StrN(m.typedString(alg)))
	out.Put("signed_fields", strSeq(m.strList(sf)))
	out.Put("value", gt.StrN(m.typedString(val)))
	return out
}

func (m *nf) pluginCfg(v *gt.Node) *gt.Node {
	switch v.Kind {
	case gt.Null:
		return gt.NullN()
	case gt.Map:
		if len(v.Keys) == 0 {
			m.feat("empty-config")
			return gt.NullN()
		}
	case gt.Seq:
		if len(v.Items) == 0 {
			m.feat("empty-config")
			return gt.NullN()
		}
	}
	return unordered(v)
}

func (m *nf) plugin(src string, cfg *gt.Node) *gt.Node {
	c, ok := m.canon(src)
	if !ok {
		m.exclude("plugin source outside the documented forms")
		c = src
	}
	if c != src {
		m.feat("short-plugin-source")
	}
	return gt.MapN(false).Put(c, m.pluginCfg(cfg))
}

func (m *nf) plugins(v *gt.Node) *gt.Node {
	out := gt.SeqN()
	switch v.Kind {
	case gt.Null:
		return nil
	case gt.Seq:
		for _, it := range v.Items {
			switch it.Kind {
			case gt.Str:
				out.Items = append(out.Items, m.plugin(it.S, gt.NullN()))
			case gt.Map:
				for i, k := range it.Keys {
					out.Items = append(out.Items, m.plugin(k, it.Vals[i]))
				}
				if len(it.Keys) != 1 {
					m.feat("multi-entry-plugin")
				}
			default:
				m.exclude("plugin item is neither string nor mapping")
			}
		}
	case gt.Map:
		m.feat("legacy-plugins-map")
		for i, k := range v.Keys {
			out.Items = append(out.Items, m.plugin(k, v.Vals[i]))
		}
	default:
		m.exclude("plugins is neither list nor mapping")
	}
	if len(out.Items) == 0 {
		return nil
	}
	return out
}

func (m *nf) setup(v *gt.Node) (dims []string, vals map[string][]string) {
	vals = map[string][]string{}
	switch v.Kind {
	case gt.Null:
		return nil, vals
	case gt.Seq:
		return []string{""}, map[string][]string{"": m.strList(v)}
	case gt.Map:
		for i, k := range v.Keys {
			dims = append(dims, k)
			l := m.strList(v.Vals[i])
			if l == nil {
				l = []string{} // `dim: null` -> zero value; shape printed is the same
			}
			vals[k] = l
		}
		return dims, vals
	}
	m.exclude("matrix setup is neither list nor mapping")
	return nil, vals
}

func setupShape(dims []string, vals map[string][]string) *gt.Node {
	if len(dims) == 1 && dims[0] == "" && len(vals[""]) > 0 {
		return strSeq(vals[""])
	}
	out := gt.MapN(false)
	for _, d := range dims {
		out.Put(d, strSeq(vals[d]))
	}
	return out
}

func (m *nf) matrix(v *gt.Node) *gt.Node {
	switch v.Kind {
	case gt.Seq:
		l := m.strList(v)
		if len(l) == 0 {
			// `matrix: []`: not a simple matrix any more; prints in mapping form
			m.feat("empty-matrix")
			return gt.MapN(false).Put("setup", setupShape([]string{""}, map[string][]string{"": {}}))
		}
		m.feat("matrix-list")
		return strSeq(l)
	case gt.Map:
		var dims []string
		vals := map[string][]string{}
		if sv, ok := v.Get("setup"); ok {
			dims, vals = m.setup(sv)
		}
		var adjs *gt.Node
		if av, ok := v.Get("adjustments"); ok {
			switch av.Kind {
			case gt.Null:
			case gt.Seq:
				adjs = gt.SeqN()
				for _, a := range av.Items {
					adjs.Items = append(adjs.Items, m.adjustment(a))
				}
				if len(adjs.Items) == 0 {
					adjs = nil
				}
			default:
				m.exclude("adjustments is not a list")
			}
		}
		rem := gt.MapN(false)
		for i, k := range v.Keys {
			if k != "setup" && k != "adjustments" {
				rem.Put(k, verbatim(v.Vals[i]))
			}
		}
		if len(dims) == 1 && dims[0] == "" && len(vals[""]) > 0 && adjs == nil && len(rem.Keys) == 0 {
			m.feat("matrix-setup-only-list")
			return strSeq(vals[""])
		}
		out := gt.MapN(false)
		out.Put("setup", setupShape(dims, vals))
		if adjs != nil {
			out.Put("adjustments", adjs)
			m.feat("matrix-adjustments")
		}
		for i, k := range rem.Keys {
			out.Put(k, rem.Vals[i])
		}
		return out
	}
	m.exclude("matrix is neither list nor mapping")
	return gt.NullN()
}

func (m *nf) adjustment(a *gt.Node) *gt.Node {
	out := gt.MapN(false)
	if a.Kind != gt.Map {
		m.exclude("adjustment is not a mapping")
		return out
	}
	w, ok := a.Get("with")
	if !ok {
		// no `with`: the adjustment names no dimension at all (the same as `with: {}`)
		w = gt.MapN(false)
		m.feat("adjustment-without-with")
	}
	if w.Kind == gt.Null {
		w = gt.MapN(false) // `with: null` names no dimension either
	}
	withScalar := func(x *gt.Node) string {
		switch x.Kind {
		case gt.Str, gt.Bool, gt.Int:
			return m.typedString(x)
		}
		m.exclude("adjustment value is not string/int/bool")
		return ""
	}
	switch w.Kind {
	case gt.Map:
		wm := gt.MapN(false)
		for i, k := range w.Keys {
			wm.Put(k, gt.StrN(withScalar(w.Vals[i])))
		}
		if len(wm.Keys) == 1 && wm.Keys[0] == "" {
			out.Put("with", wm.Vals[0])
		} else {
			out.Put("with", wm)
		}
	default:
		out.Put("with", gt.StrN(withScalar(w)))
	}
	for i, k := range a.Keys {
		switch k {
		case "with":
		case "skip":
			s := a.Vals[i]
			if s.Kind == gt.Str && s.S == "" || s.IsNum() {
				m.exclude("empty-string / numeric skip")
			}
			out.Put("skip", verbatim(s))
		default:
			out.Put(k, verbatim(a.Vals[i]))
		}
	}
	return out
}

func (m *nf) cache(v *gt.Node) *gt.Node {
	out := gt.MapN(false)
	switch v.Kind {
	case gt.Bool:
		m.feat("cache-shorthand")
		if !v.B {
			return gt.BoolN(false) // disabled: JSON false / YAML {disabled: true}; see Canon
		}
		return out
	case gt.Str:
		m.feat("cache-shorthand")
		return out.Put("paths", strSeq([]string{v.S}))
	case gt.Seq:
		m.feat("cache-shorthand")
		if l := m.strList(v); len(l) > 0 {
			out.Put("paths", strSeq(l))
		}
		return out
	case gt.Map:
		for i, k := range v.Keys {
			x := v.Vals[i]
			switch k {
			case "disabled":
				m.exclude("disabled key inside cache mapping")
			case "name", "size":
				if s := m.typedString(x); s != "" {
					out.Put(k, gt.StrN(s))
				}
				if x.Kind == gt.Seq || x.Kind == gt.Map {
					m.exclude("collection as cache name/size")
				}
			case "paths":
				if l := m.strList(x); len(l) > 0 {
					out.Put("paths", strSeq(l))
				}
			default:
				out.Put(k, verbatim(x))
			}
		}
		return out
	}
	m.exclude("unsupported cache value: " + v.Kind.String())
	return out
}

func (m *nf) group(s *gt.Node) (*gt.Node, *Sch) {
	out := gt.MapN(false)
	consumed := map[string]bool{}
	sch := &Sch{Kind: KGroup}
	if k, v, ok := firstPresent(s, "key", "id", "identifier"); ok {
		consumed[k] = true
		out.Put("key", gt.StrN(m.typedString(v)))
	}
	if k, v, ok := firstPresent(s, "group", "label", "name"); ok {
		consumed[k] = true
		if v.Kind == gt.Null {
			out.Put("group", gt.NullN())
		} else {
			out.Put("group", gt.StrN(m.typedString(v)))
		}
		if k != "group" {
			m.feat("alias-used")
		}
		if s.Has("group") && (s.Has("label") || s.Has("name")) {
			m.feat("alias-combination")
		}
	} else {
		out.Put("group", gt.NullN())
	}
	if v, ok := s.Get("steps"); ok {
		consumed["steps"] = true
		st, sc := m.steps(v)
		out.Put("steps", st)
		sch.Steps = sc
		for _, c := range sc {
			if c.Kind == KUnknown {
				// the group stays a group (finding F15, repaired): the unknown step is kept verbatim inside it
				m.feat("unknown-step-in-group")
			}
		}
	} else {
		out.Put("steps", gt.SeqN())
	}
	for i, k := range s.Keys {
		if !consumed[k] {
			out.Put(k, verbatim(s.Vals[i]))
		}
	}
	m.countNested(s)
	if len(sch.Steps) > 0 {
		m.feat("group-with-children")
	}
	return out, sch
}

// ---------------------------------------------------------------------------
// Canon: the comparator's tolerances (DESIGN §2.5), applied to BOTH the expected
// and the actual tree, guided by the expected step kinds:
//   - omitempty typed fields: absent == null == empty container / empty string
//   - plugin configs {} / [] == null
//   - matrix setup null == {} ; adjustment skip: absent == null == false
//   - disabled cache: false (JSON) == {disabled: true} (YAML)
func Canon(pipeline *gt.Node, steps []*Sch) *gt.Node {
	c := pipeline.Clone()
	if c.Kind != gt.Map {
		return c
	}
	dropEmpty(c, "env")
	if sv, ok := c.Get("steps"); ok {
		canonSteps(sv, steps)
	}
	return c
}

func isEmpty(v *gt.Node) bool {
	switch v.Kind {
	case gt.Null:
		return true
	case gt.Str:
		return v.S == ""
	case gt.Seq:
		return len(v.Items) == 0
	case gt.Map:
		return len(v.Keys) == 0
	}
	return false
}

func dropEmpty(m *gt.Node, keys ...string) {
	for _, k := range keys {
		if v, ok := m.Get(k); ok && isEmpty(v) {
			m.Del(k)
		}
	}
}

func canonSteps(sv *gt.Node, sch []*Sch) {
	if sv.Kind != gt.Seq {
		return
	}
	for i, s := range sv.Items {
		if i >= len(sch) || s.Kind != gt.Map {
			continue
		}
		switch sch[i].Kind {
		case KCommand:
			canonCommand(s)
		case KGroup:
			dropEmpty(s, "key")
			if c, ok := s.Get("steps"); ok {
				canonSteps(c, sch[i].Steps)
			}
		}
	}
}

func canonCommand(s *gt.Node) {
	dropEmpty(s, "key", "label", "plugins", "env")
	for _, k := range []string{"signature", "matrix", "cache"} {
		if v, ok := s.Get(k); ok && v.Kind == gt.Null {
			s.Del(k)
		}
	}
	if p, ok := s.Get("plugins"); ok && p.Kind == gt.Seq {
		for _, it := range p.Items {
			if it.Kind == gt.Map {
				for j, cfg := range it.Vals {
					if cfg.Kind != gt.Null && isEmpty(cfg) && cfg.Kind != gt.Str {
						it.Vals[j] = gt.NullN()
					}
				}
			}
		}
	}
	if mx, ok := s.Get("matrix"); ok && mx.Kind == gt.Map {
		if sv, ok := mx.Get("setup"); ok && sv.Kind == gt.Null {
			mx.Put("setup", gt.MapN(false))
		}
		dropEmpty(mx, "adjustments")
		if av, ok := mx.Get("adjustments"); ok && av.Kind == gt.Seq {
			for _, a := range av.Items {
				if a.Kind != gt.Map {
					continue
				}
				if sk, ok := a.Get("skip"); ok && (sk.Kind == gt.Null || sk.Kind == gt.Bool && !sk.B) {
					a.Del("skip")
				}
				// a `with` naming no dimension: absent == null == {}
				if wv, ok := a.Get("with"); !ok || wv.Kind == gt.Null {
					a.Put("with", gt.MapN(false))
				}
			}
		}
	}
	if c, ok := s.Get("cache"); ok && c.Kind == gt.Map {
		if d, ok := c.Get("disabled"); ok && d.Kind == gt.Bool && d.B {
			s.Put("cache", gt.BoolN(false))
		} else {
			dropEmpty(c, "name", "size", "paths")
		}
	}
}
