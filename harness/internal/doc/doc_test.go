package doc

import (
	"bytes"
	"errors"
	"fmt"
	"os"
	"sort"
	"testing"

	pipeline "github.com/buildkite/go-pipeline"
	"pgregory.net/rapid"
)

// Smoke test of the generator itself: render-fault rate, parse rate, feature histogram.
func TestGeneratorSmoke(t *testing.T) {
	faults, outside, ok, parseErr, warn := 0, 0, 0, 0, 0
	feats := map[string]int{}
	shown := 0
	rapid.Check(t, func(t *rapid.T) {
		g := NewG(t, Config{Anchors: true, Timestamps: true, BigNums: true, Floats: true, BigMaps: true, EmptyKey: false, MergeKeyStr: false, BothCommands: true, Signature: true})
		root := g.Pipeline()
		d, err := Render(root, 2, 20000)
		if err != nil {
			if errors.Is(err, ErrRenderFault) {
				faults++
				if faults < 4 {
					fmt.Fprintf(os.Stderr, "FAULT: %v\n", err)
				}
			} else {
				outside++
			}
			return
		}
		ok++
		for k, v := range g.Feat {
			feats[k] += v
		}
		p, perr := pipeline.Parse(bytes.NewReader(d.YAML))
		if perr != nil && p == nil {
			parseErr++
		}
		if perr != nil {
			warn++
			if shown < 3 {
				shown++
				fmt.Fprintf(os.Stderr, "---- parse err/warn: %v\n%s\n", perr, d.YAML)
			}
		}
	})
	var ks []string
	for k := range feats {
		ks = append(ks, k)
	}
	sort.Strings(ks)
	for _, k := range ks {
		fmt.Fprintf(os.Stderr, "%-28s %d\n", k, feats[k])
	}
	fmt.Fprintf(os.Stderr, "ok=%d faults=%d outside=%d parseErr=%d warn=%d\n", ok, faults, outside, parseErr, warn)
}
