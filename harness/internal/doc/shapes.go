package doc

import (
	"fmt"
	"strings"

	"gopkg.in/yaml.v3"
	"pgregory.net/rapid"
)

// Documents built by SHAPE rather than from the grammar: very deep ones and very large ones. Limits
// on depth or size that look at the text as written (a hardening step, a buffer, a read limit) meet
// documents the grammar-sized generators never produce; both builders aim at round numbers.

// Deep is a well-formed pipeline document nested Depth levels deep.
type Deep struct {
	Text       []byte
	Depth      int // requested nesting
	Groups     int // levels spent on nested group steps (two each)
	DataLevels int // levels spent on data inside the innermost step
	Tail       int // form of the innermost step
	// Deepening: the document ends in a form that normalisation writes one or two levels deeper (bare
	// step list, bare-string plugin, plugins as one mapping, `cache: path`)
	Deepening bool
	// Canon maps the plugin sources used to their canonical form.
	Canon map[string]string
}

// GenDeep draws a depth of 1-320 levels - half of them uniformly, half within 6 of a round number - and
// builds a document that deep out of nested group steps and/or sequences and mappings inside an
// unknown field or a plugin config of the innermost command step.
func GenDeep(t *rapid.T) Deep {
	depth := rapid.IntRange(1, 320).Draw(t, "depth")
	if rapid.Bool().Draw(t, "round") {
		depth = rapid.SampledFrom([]int{16, 32, 50, 64, 100, 128, 200, 250, 256}).Draw(t, "base") + rapid.IntRange(-6, 6).Draw(t, "off")
	}
	d := Deep{Depth: depth, Canon: map[string]string{
		"docker#v5":       "github.com/buildkite-plugins/docker-buildkite-plugin#v5",
		"my-org/thing#v1": "github.com/my-org/thing-buildkite-plugin#v1",
	}}
	d.Tail = rapid.IntRange(0, 6).Draw(t, "tail")
	stepKV := []*yaml.Node{StrNode("command"), StrNode("echo")}
	if rapid.Bool().Draw(t, "data") {
		d.DataLevels = rapid.IntRange(0, depth).Draw(t, "datalevels")
	}
	nest := func(n int, v *yaml.Node) *yaml.Node {
		for i := 0; i < n; i++ {
			if rapid.Bool().Draw(t, "seqormap") {
				v = SeqNode(true, v)
			} else {
				v = MapNode(true, StrNode("k"), v)
			}
		}
		return v
	}
	var inner *yaml.Node
	switch d.Tail {
	case 0:
		// plugins: [docker#v5] - and the data levels in another plugin's config
		pl := SeqNode(true, StrNode("docker#v5"))
		if d.DataLevels > 0 {
			pl.Content = append(pl.Content, MapNode(true, StrNode("my-org/thing#v1"), nest(d.DataLevels, StrNode("v"))))
		}
		stepKV = append(stepKV, StrNode("plugins"), pl)
		d.Deepening = true
	case 1:
		stepKV = append(stepKV, StrNode("cache"), StrNode("vendor/"))
		if d.DataLevels > 0 {
			stepKV = append(stepKV, StrNode("extra"), nest(d.DataLevels, StrNode("v")))
		}
		d.Deepening = true
	case 2:
		stepKV = append(stepKV, StrNode("matrix"), SeqNode(true, StrNode("a"), StrNode("b")))
		if d.DataLevels > 0 {
			stepKV = append(stepKV, StrNode("extra"), nest(d.DataLevels, StrNode("v")))
		}
	case 3:
		// unknown data ending in a plugin-like list: nothing deepens inside unknown data
		stepKV = append(stepKV, StrNode("extra"), nest(d.DataLevels, SeqNode(true, StrNode("docker#v5"))))
	case 4:
		// a scalar step at the bottom of the groups
		stepKV = nil
	case 5:
		// plugins written as ONE mapping (the legacy spelling; normalised to a list of one-entry mappings),
		// the data levels inside a plugin's config
		stepKV = append(stepKV, StrNode("plugins"), MapNode(true, StrNode("docker#v5"), nest(d.DataLevels, MapNode(true, StrNode("image"), StrNode("alpine")))))
		d.Deepening = true
	default:
		if d.DataLevels > 0 {
			stepKV = append(stepKV, StrNode("extra"), nest(d.DataLevels, StrNode("v")))
		}
	}
	if stepKV == nil {
		inner = StrNode("wait")
	} else {
		inner = MapNode(true, stepKV...)
	}
	d.Groups = (depth - d.DataLevels) / 2
	steps := SeqNode(true, inner)
	for i := 0; i < d.Groups; i++ {
		steps = SeqNode(true, MapNode(true, StrNode("group"), StrNode("g"), StrNode("steps"), steps))
	}
	var root *yaml.Node
	if rapid.Bool().Draw(t, "barelist") {
		root = steps
		d.Deepening = true
	} else {
		root = MapNode(true, StrNode("steps"), steps)
	}
	text, err := yaml.Marshal(DocNode(root))
	if err != nil {
		panic(fmt.Sprintf("doc.GenDeep: rendering: %v", err))
	}
	d.Text = text
	return d
}

// Classes describes d for the evidence record.
func (d Deep) Classes() []string {
	return []string{fmt.Sprintf("groups>=%d", d.Groups/25*25), fmt.Sprintf("datalevels>=%d", d.DataLevels/50*50), fmt.Sprintf("tail=%d", d.Tail)}
}

// Large is a well-formed pipeline document of a drawn size.
type Large struct {
	Text string
	// Want: the command text of each step in order ("\x00wait" for a wait step)
	Want  []string
	Shape int // 0 very many short steps, 1 literal block scalars, 2 one-line plain scalars, 3 double-quoted
	Size  int // requested size in bytes (the text is at least that long)
}

// GenLarge builds a document of 64 KiB - 16 MiB (plus up to 8 KiB): 3-2000 command / wait steps with
// the bulk in long command scalars placed before, between and after the other steps, or in very many
// short steps.
func GenLarge(t *rapid.T) Large {
	l := Large{}
	l.Size = rapid.SampledFrom([]int{1 << 16, 1 << 18, 1 << 20, 1 << 21, 1 << 22, 1 << 23, 1 << 24}).Draw(t, "size") + rapid.IntRange(0, 8192).Draw(t, "jitter")
	l.Shape = rapid.IntRange(0, 3).Draw(t, "shape")
	var b strings.Builder
	if rapid.Bool().Draw(t, "mapform") {
		b.WriteString("env:\n  A: b\nsteps:\n")
	}
	small := func(i int) {
		if rapid.IntRange(0, 5).Draw(t, "wait") == 0 {
			b.WriteString("- wait\n")
			l.Want = append(l.Want, "\x00wait")
			return
		}
		c := fmt.Sprintf("echo step %d", i)
		fmt.Fprintf(&b, "- command: %s\n", c)
		l.Want = append(l.Want, c)
	}
	lead := rapid.IntRange(0, 3).Draw(t, "lead")
	for i := 0; i < lead; i++ {
		small(i)
	}
	line := rapid.SampledFrom([]string{"echo 0123456789 abcdefghijklmnopqrstuvwxyz", "make -j8 target", "x"}).Draw(t, "line")
	switch l.Shape {
	case 0:
		for i := 0; b.Len() < l.Size; i++ {
			c := fmt.Sprintf("echo %d", i)
			fmt.Fprintf(&b, "- command: %s\n", c)
			l.Want = append(l.Want, c)
		}
	default:
		chunks := rapid.IntRange(1, 3).Draw(t, "chunks")
		for c := 0; c < chunks; c++ {
			n := (l.Size/chunks)/(len(line)+1) + 1
			var text string
			switch l.Shape {
			case 1:
				b.WriteString("- command: |-\n")
				for i := 0; i < n; i++ {
					b.WriteString("    " + line + "\n")
				}
				text = strings.TrimSuffix(strings.Repeat(line+"\n", n), "\n")
			case 2:
				text = strings.TrimSuffix(strings.Repeat(line+" ", n), " ")
				b.WriteString("- command: " + text + "\n")
			default:
				b.WriteString("- command: \"")
				for i := 0; i < n; i++ {
					if i > 0 {
						b.WriteString("\\n")
					}
					b.WriteString(line)
				}
				b.WriteString("\"\n")
				text = strings.TrimSuffix(strings.Repeat(line+"\n", n), "\n")
			}
			l.Want = append(l.Want, text)
			small(1000 + c)
		}
	}
	trail := rapid.IntRange(1, 4).Draw(t, "trail")
	for i := 0; i < trail; i++ {
		small(2000 + i)
	}
	l.Text = b.String()
	return l
}

// Classes describes l for the evidence record.
func (l Large) Classes() []string {
	return []string{fmt.Sprintf("shape=%d", l.Shape), fmt.Sprintf("size>=%dKiB", (l.Size>>16)<<6)}
}
