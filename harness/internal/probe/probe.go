// Package probe re-confirms each listed known finding on every run: when the
// specific failing input still fails, the KNOWN-FINDING line is printed; when
// it no longer fails nothing is printed (and nothing is suppressed either: the
// generators exclude a class only while it is listed as known).
package probe

import (
	"encoding/json"
	"errors"
	"strings"

	pipeline "github.com/buildkite/go-pipeline"
	"github.com/buildkite/go-pipeline/ordered"
	"gopkg.in/yaml.v3"

	"verif/harness/internal/ev"
	"verif/harness/internal/gt"
)

// F9Reproduces: a mapping key "<<" does not survive the YAML output leg.
func F9Reproduces() bool {
	// (a) through Parse
	p, err := pipeline.Parse(strings.NewReader(`{"steps": [{"command": "x", "<<": 1}]}`))
	if err != nil || p == nil {
		return false
	}
	yb, err := yaml.Marshal(p)
	if err != nil {
		return true
	}
	n, err := gt.FromYAML(yb)
	bad := err != nil
	if !bad {
		steps, _ := n.Get("steps")
		bad = steps == nil || len(steps.Items) != 1 || !steps.Items[0].Has("<<")
	}
	if !bad {
		if _, err := pipeline.Parse(strings.NewReader(string(yb))); err != nil {
			bad = true
		}
	}
	// (b) programmatically built ordered map
	m := ordered.NewMap[string, any](1)
	m.Set("<<", 1)
	ob, err := yaml.Marshal(m)
	if err != nil {
		return true
	}
	back := ordered.NewMap[string, any](0)
	if err := yaml.Unmarshal(ob, back); err != nil || !ordered.Equal(m, back) {
		bad = true
	}
	return bad
}

// F9 prints the KNOWN-FINDING line for prop if F9 is listed and still reproduces.
func F9(prop string) {
	if ev.Known("F9") && F9Reproduces() {
		ev.ReportKnown(prop, "F9")
	}
}

// F7Reproduces: a parsed pipeline holding a non-finite float cannot be JSON-marshalled.
func F7Reproduces() bool {
	p, err := pipeline.Parse(strings.NewReader("steps:\n  - command: x\n    foo: .nan\n"))
	if err != nil || p == nil {
		return false
	}
	_, err = json.Marshal(p)
	var uv *json.UnsupportedValueError
	return err != nil && (errors.As(err, &uv) || strings.Contains(err.Error(), "unsupported value"))
}

func F7(prop string) {
	if ev.Known("F7") && F7Reproduces() {
		ev.ReportKnown(prop, "F7")
	}
}

// F10Reproduces: an empty primary key next to an alias is not a fixpoint.
func F10Reproduces() bool {
	p, err := pipeline.Parse(strings.NewReader("steps:\n  - command: x\n    key: ~\n    id: y\n"))
	if err != nil || p == nil || len(p.Steps) != 1 {
		return false
	}
	b, err := json.Marshal(p)
	if err != nil {
		return false
	}
	q, err := pipeline.Parse(strings.NewReader(string(b)))
	if err != nil || len(q.Steps) != 1 {
		return false
	}
	a, ok1 := p.Steps[0].(*pipeline.CommandStep)
	c, ok2 := q.Steps[0].(*pipeline.CommandStep)
	return ok1 && ok2 && a.Key != c.Key
}

func F10(prop string) {
	if ev.Known("F10") && F10Reproduces() {
		ev.ReportKnown(prop, "F10")
	}
}

// F10Class reports whether a parsed step list contains the F10 input class.
func F10Class(ss pipeline.Steps) bool {
	for _, s := range ss {
		switch t := s.(type) {
		case *pipeline.CommandStep:
			_, id := t.RemainingFields["id"]
			_, ident := t.RemainingFields["identifier"]
			_, name := t.RemainingFields["name"]
			if t.Key == "" && (id || ident) || t.Label == "" && name {
				return true
			}
		case *pipeline.GroupStep:
			_, id := t.RemainingFields["id"]
			_, ident := t.RemainingFields["identifier"]
			if t.Key == "" && (id || ident) || F10Class(t.Steps) {
				return true
			}
		}
	}
	return false
}

// LongDigitRun reports whether s contains 19 or more consecutive ASCII digits.
func LongDigitRun(s string) bool {
	run := 0
	for i := 0; i < len(s); i++ {
		if s[i] >= '0' && s[i] <= '9' {
			run++
			if run >= 19 {
				return true
			}
		} else {
			run = 0
		}
	}
	return false
}

// F11Reproduces: yaml.v3's key sorter is non-transitive for overflowing digit runs.
func F11Reproduces() bool {
	seen := map[string]bool{}
	for i := 0; i < 200 && len(seen) < 2; i++ {
		m := map[string]any{"7": 1, "16": 2, "18446744073709551615x": 3, "a": 4, "b": 5, "c": 6, "d": 7, "e": 8, "f": 9}
		b, err := yaml.Marshal(&pipeline.Pipeline{Steps: pipeline.Steps{&pipeline.CommandStep{Command: "x", RemainingFields: m}}})
		if err != nil {
			return false
		}
		seen[string(b)] = true
	}
	return len(seen) > 1
}

func F11(prop string) {
	if ev.Known("F11") && F11Reproduces() {
		ev.ReportKnown(prop, "F11")
	}
}

// F14Reproduces: yaml.Marshal fails on a white-space-led multi-line string inside an ordered map.
func F14Reproduces() bool {
	p, err := pipeline.Parse(strings.NewReader(`{"steps": [], "x": {"retry": ["\na"]}}`))
	if p == nil || (err != nil && !warningIs(err)) {
		return false
	}
	_, err = yaml.Marshal(p)
	return err != nil
}

func warningIs(err error) bool {
	type w interface{ Unwrap() []error }
	_, ok := err.(w)
	return ok
}

func F14(prop string) {
	if ev.Known("F14") && F14Reproduces() {
		ev.ReportKnown(prop, "F14")
	}
}

// F18Reproduces: nil and empty setup / `with` inside a non-empty matrix give different signed payloads.
func F18Reproduces() bool {
	mk := func(setup pipeline.MatrixSetup, with pipeline.MatrixAdjustmentWith) string {
		m := &pipeline.Matrix{Setup: setup, Adjustments: pipeline.MatrixAdjustments{{With: with, Skip: true}}}
		b, err := json.Marshal(m)
		if err != nil {
			return "error: " + err.Error()
		}
		return string(b)
	}
	return mk(nil, nil) != mk(pipeline.MatrixSetup{}, nil) || mk(nil, nil) != mk(nil, pipeline.MatrixAdjustmentWith{})
}

func F18(prop string) {
	if ev.Known("F18") && F18Reproduces() {
		ev.ReportKnown(prop, "F18")
	}
}
