// Package probe re-confirms each listed known finding on every run: when the
// specific failing input still fails, the KNOWN-FINDING line is printed; when
// it no longer fails nothing is printed (and nothing is suppressed either: the
// generators exclude a class only while it is listed as known).
package probe

import (
	"encoding/json"
	"errors"
	"strings"

	pipeline "github.com/buildkite/go-pipeline"
	"github.com/buildkite/go-pipeline/ordered"
	"gopkg.in/yaml.v3"

	"verif/harness/internal/ev"
	"verif/harness/internal/gt"
)

// F9Reproduces: a mapping key "<<" does not survive the YAML output leg.
func F9Reproduces() bool {
	// (a) through Parse
	p, err := pipeline.Parse(strings.NewReader(`{"steps": [{"command": "x", "<<": 1}]}`))
	if err != nil || p == nil {
		return false
	}
	yb, err := yaml.Marshal(p)
	if err != nil {
		return true
	}
	n, err := gt.FromYAML(yb)
	bad := err != nil
	if !bad {
		steps, _ := n.Get("steps")
		bad = steps == nil || len(steps.Items) != 1 || !steps.Items[0].Has("<<")
	}
	if !bad {
		if _, err := pipeline.Parse(strings.NewReader(string(yb))); err != nil {
			bad = true
		}
	}
	// (b) programmatically built ordered map
	m := ordered.NewMap[string, any](1)
	m.Set("<<", 1)
	ob, err := yaml.Marshal(m)
	if err != nil {
		return true
	}
	back := ordered.NewMap[string, any](0)
	if err := yaml.Unmarshal(ob, back); err != nil || !ordered.Equal(m, back) {
		bad = true
	}
	return bad
}

// F9 prints the KNOWN-FINDING line for prop if F9 is listed and still reproduces.
func F9(prop string) {
	if ev.Known("F9") && F9Reproduces() {
		ev.ReportKnown(prop, "F9")
	}
}

// F7Reproduces: a parsed pipeline holding a non-finite float cannot be JSON-marshalled.
func F7Reproduces() bool {
	p, err := pipeline.Parse(strings.NewReader("steps:\n  - command: x\n    foo: .nan\n"))
	if err != nil || p == nil {
		return false
	}
	_, err = json.Marshal(p)
	var uv *json.UnsupportedValueError
	return err != nil && (errors.As(err, &uv) || strings.Contains(err.Error(), "unsupported value"))
}

func F7(prop string) {
	if ev.Known("F7") && F7Reproduces() {
		ev.ReportKnown(prop, "F7")
	}
}
