// Package envx holds the caller environments the harness owns: a
// case-sensitive map, a case-folding map, and a recording wrapper. They
// implement pipeline.InterpolationEnv (and interpolate.Env).
package envx

import (
	"fmt"
	"sort"
	"strings"
)

type Env struct {
	M    map[string]string
	Fold bool
	// Log records every call when Record is set.
	Record bool
	Log    []string
	Sets   []string // names passed to Set (normalised)
}

func New(fold bool, kv map[string]string) *Env {
	e := &Env{M: map[string]string{}, Fold: fold}
	keys := make([]string, 0, len(kv))
	for k := range kv {
		keys = append(keys, k)
	}
	sort.Strings(keys) // deterministic when names collide under folding
	for _, k := range keys {
		e.M[e.norm(k)] = kv[k]
	}
	return e
}

func (e *Env) norm(k string) string {
	if e.Fold {
		return strings.ToUpper(k)
	}
	return k
}

func (e *Env) Get(name string) (string, bool) {
	v, ok := e.M[e.norm(name)]
	if e.Record {
		e.Log = append(e.Log, fmt.Sprintf("Get(%q)=%q,%v", name, v, ok))
	}
	return v, ok
}

func (e *Env) Set(name, value string) {
	if e.Record {
		e.Log = append(e.Log, fmt.Sprintf("Set(%q,%q)", name, value))
	}
	e.Sets = append(e.Sets, e.norm(name))
	e.M[e.norm(name)] = value
}

func (e *Env) Clone() *Env {
	c := &Env{M: map[string]string{}, Fold: e.Fold, Record: e.Record}
	for k, v := range e.M {
		c.M[k] = v
	}
	return c
}

func (e *Env) Snapshot() map[string]string {
	c := map[string]string{}
	for k, v := range e.M {
		c[k] = v
	}
	return c
}
