// Package strs holds the string / key generators shared by the checks.
//
// Domain S (DESIGN §2.1): valid UTF-8 whose runes are \t, \n, \r or satisfy
// unicode.IsPrint. Strings are assembled from weighted segments so that YAML
// indicators, type look-alikes, interpolation and matrix-token look-alikes,
// edge whitespace and non-ASCII text are all frequent.
package strs

import (
	"strings"
	"unicode"
	"unicode/utf8"

	"pgregory.net/rapid"
)

var words = []string{"a", "b", "echo", "hello world", "make test", "x_y", "B", "3", "docker", "v1.2.3", "path/to/file", "foo-bar", "k", "Z9", "build", "deploy"}

var indicators = []string{": ", " #", "- ", "? ", "&a", "*a", "!t", "|", ">", "%", "@", "`", "'", "\"", "{", "[", ",", "]", "}", ":", "#", "-", "?", "!", "&", "*", "\\", "//", "|-", ">+", "---", "...", "- - ", "key: value", "[a, b]", "{a: b}", "a: b: c"}

var lookalikes = []string{"yes", "no", "on", "off", "y", "n", "Y", "N", "true", "false", "True", "FALSE", "null", "Null", "~", "0x1f", "0o7", "0b101", "017", "1e3", "1_000", ".5", "+1", "-0", "1.", "2002-08-15", "2001-12-14t21:59:43.10-05:00", "12:30:45", "1:20", "<<", "=", ".nan", ".inf", "-.inf", "0", "1", "-1", "123", "1.5", "9007199254740993", "18446744073709551615", "1e400"}

var interp = []string{"$X", "${X}", "$$X", "\\$X", "${X:-d}", "$(", "$", "${", "$$", "${X?}", "$FOO_BAR", "${a.b}"}

var matrixish = []string{"{{matrix}}", "{{ matrix }}", "{{matrix.a}}", "{{ matrix.os }}", "{matrix}", "{{matrix.}}", "{{", "}}", "{{Matrix}}"}

var spaces = []string{" ", "  ", "\t", "\n", "\r\n", "\n\n", " \n", "\n ", "\r"}

var unicodeBits = []string{"é", "日本語", "😀", "é", "אב", "ß", "Ω", "中", "𝔘", "́", "¡", "€", "éè", "🇦🇺", "﷼", "กุ"}

var printable = rapid.RuneFrom(nil, unicode.Letter, unicode.Number, unicode.Punct, unicode.Symbol, unicode.Mark)

// InS reports whether s is in domain S.
func InS(s string) bool {
	if !utf8.ValidString(s) {
		return false
	}
	for _, r := range s {
		if r == '\t' || r == '\n' || r == '\r' {
			continue
		}
		if !unicode.IsPrint(r) {
			return false
		}
	}
	return true
}

// YAMLLegOK is the C02/C09 carve-out: multi-line strings that begin with
// whitespace are not sent through a YAML re-parse.
func YAMLLegOK(s string) bool {
	if !strings.Contains(s, "\n") {
		return true
	}
	r, _ := utf8.DecodeRuneInString(s)
	return !(r == ' ' || r == '\t' || r == '\n' || r == '\r' || unicode.IsSpace(r))
}

func segment(t *rapid.T) string {
	switch rapid.IntRange(0, 13).Draw(t, "seg") {
	case 0, 1, 2, 3:
		return rapid.SampledFrom(words).Draw(t, "word")
	case 4, 5:
		return rapid.SampledFrom(indicators).Draw(t, "ind")
	case 6, 7:
		return rapid.SampledFrom(lookalikes).Draw(t, "look")
	case 8:
		return rapid.SampledFrom(interp).Draw(t, "interp")
	case 9:
		return rapid.SampledFrom(matrixish).Draw(t, "mx")
	case 10:
		return rapid.SampledFrom(spaces).Draw(t, "sp")
	case 11:
		return rapid.SampledFrom(unicodeBits).Draw(t, "uni")
	case 12:
		n := rapid.IntRange(1, 4).Draw(t, "nr")
		var b strings.Builder
		for i := 0; i < n; i++ {
			b.WriteRune(printable.Draw(t, "rune"))
		}
		return b.String()
	default:
		// long runs: beyond 80 and 128 columns
		n := rapid.SampledFrom([]int{70, 90, 140}).Draw(t, "long")
		return strings.Repeat(rapid.SampledFrom([]string{"x", "ab ", "long-word "}).Draw(t, "unit"), n/3+1)
	}
}

// S generates strings of domain S.
func S() *rapid.Generator[string] {
	return rapid.Custom(func(t *rapid.T) string {
		s := rawS(t)
		// Multi-line strings that begin with white space fall under the YAML-leg carve-out; one
		// of them switches a whole document's YAML output leg off, so they are kept rare
		// (about one string in 3000) rather than one in 40; a document holds a hundred strings or more.
		// (rapid favours small and boundary integers, so the "keep" outcome is a mid-range value)
		if !YAMLLegOK(s) && rapid.IntRange(0, 399).Draw(t, "keepcarveout") != 137 {
			s = strings.TrimLeft(s, " \t\r\n")
		}
		return s
	})
}

func rawS(t *rapid.T) string {
	switch rapid.IntRange(0, 9).Draw(t, "shape") {
	case 0:
		return ""
	case 1, 2:
		return segment(t)
	case 3:
		// a lone look-alike (most likely to change type when unquoted)
		return rapid.SampledFrom(lookalikes).Draw(t, "look")
	}
	n := rapid.IntRange(1, 5).Draw(t, "nseg")
	var b strings.Builder
	for i := 0; i < n; i++ {
		b.WriteString(segment(t))
	}
	return b.String()
}

// Simple generates tame strings (identifiers and short words): used where the
// string content is not what the check is about.
func Simple() *rapid.Generator[string] {
	return rapid.SampledFrom([]string{"a", "b", "c", "x", "y", "foo", "bar", "echo hi", "v1", "main", "build", "test", "one two", "A", "B"})
}

// Ident generates identifiers over [A-Za-z0-9_].
func Ident() *rapid.Generator[string] {
	return rapid.StringMatching(`[A-Za-z_][A-Za-z0-9_]{0,6}`)
}
