// Package canon is an independent structural walker over the library's public
// object model: it reads exported fields (never a Marshal* method) into a
// gt.Node tree. It is the "before/after" and "p1 equals p2" instrument of the
// checks, so they do not compare the library's marshaller with itself.
package canon

import (
	"fmt"
	"sort"

	pipeline "github.com/buildkite/go-pipeline"
	"github.com/buildkite/go-pipeline/ordered"

	"verif/harness/internal/gt"
)

// Mode selects how nil / empty containers are read.
type Mode struct {
	// Norm folds distinctions the library documents as equivalent: nil vs empty
	// env / plugins / remaining fields, plugin config {} / [] / nil, nil vs
	// empty matrix, empty key/label.
	Norm bool
	// NoSignature leaves signatures out (for "unchanged apart from signatures").
	NoSignature bool
}

var Raw = Mode{}
var Norm = Mode{Norm: true}

// Value reads a generic decoded value.
func Value(v any) *gt.Node {
	switch t := v.(type) {
	case *ordered.MapSA:
		if t == nil {
			return gt.NullN()
		}
		out := gt.MapN(true)
		t.Range(func(k string, x any) error {
			out.Keys = append(out.Keys, k)
			out.Vals = append(out.Vals, Value(x))
			return nil
		})
		return out
	case *ordered.MapSS:
		if t == nil {
			return gt.NullN()
		}
		out := gt.MapN(true)
		t.Range(func(k, x string) error {
			out.Keys = append(out.Keys, k)
			out.Vals = append(out.Vals, gt.StrN(x))
			return nil
		})
		return out
	case map[string]any:
		if t == nil {
			return gt.NullN()
		}
		out := gt.MapN(false)
		for _, k := range sortedKeys(t) {
			out.Keys = append(out.Keys, k)
			out.Vals = append(out.Vals, Value(t[k]))
		}
		return out
	case []any:
		if t == nil {
			return gt.NullN()
		}
		out := gt.SeqN()
		for _, x := range t {
			out.Items = append(out.Items, Value(x))
		}
		return out
	}
	n, err := gt.FromGo(v)
	if err != nil {
		return gt.StrN(fmt.Sprintf("<unreadable %T: %v>", v, v))
	}
	return n
}

func sortedKeys[V any](m map[string]V) []string {
	ks := make([]string, 0, len(m))
	for k := range m {
		ks = append(ks, k)
	}
	sort.Strings(ks)
	return ks
}

func strMap(m map[string]string, mode Mode) *gt.Node {
	if m == nil && !mode.Norm {
		return gt.NullN()
	}
	out := gt.MapN(false)
	for _, k := range sortedKeys(m) {
		out.Keys = append(out.Keys, k)
		out.Vals = append(out.Vals, gt.StrN(m[k]))
	}
	return out
}

func anyMap(m map[string]any, mode Mode) *gt.Node {
	if m == nil && !mode.Norm {
		return gt.NullN()
	}
	out := gt.MapN(false)
	for _, k := range sortedKeys(m) {
		out.Keys = append(out.Keys, k)
		out.Vals = append(out.Vals, Value(m[k]))
	}
	return out
}

func strs(ss []string, mode Mode) *gt.Node {
	if ss == nil && !mode.Norm {
		return gt.NullN()
	}
	out := gt.SeqN()
	for _, s := range ss {
		out.Items = append(out.Items, gt.StrN(s))
	}
	return out
}

// Pipeline reads a *pipeline.Pipeline.
func Pipeline(p *pipeline.Pipeline, mode Mode) *gt.Node {
	if p == nil {
		return gt.NullN()
	}
	out := gt.MapN(false)
	out.Put("steps", Steps(p.Steps, mode))
	if p.Env == nil {
		if mode.Norm {
			out.Put("env", gt.MapN(true))
		} else {
			out.Put("env", gt.NullN())
		}
	} else {
		out.Put("env", Value(p.Env))
	}
	out.Put("remaining", anyMap(p.RemainingFields, mode))
	return out
}

func Steps(ss pipeline.Steps, mode Mode) *gt.Node {
	if ss == nil && !mode.Norm {
		return gt.NullN()
	}
	out := gt.SeqN()
	for _, s := range ss {
		out.Items = append(out.Items, Step(s, mode))
	}
	return out
}

// Step reads any step.
func Step(s pipeline.Step, mode Mode) *gt.Node {
	out := gt.MapN(false)
	switch t := s.(type) {
	case nil:
		return gt.NullN()
	case *pipeline.CommandStep:
		if t == nil {
			return gt.NullN()
		}
		out.Put("·kind", gt.StrN("command"))
		out.Put("key", gt.StrN(t.Key))
		out.Put("label", gt.StrN(t.Label))
		out.Put("command", gt.StrN(t.Command))
		out.Put("plugins", Plugins(t.Plugins, mode))
		out.Put("env", strMap(t.Env, mode))
		if !mode.NoSignature {
			out.Put("signature", Signature(t.Signature))
		}
		out.Put("matrix", Matrix(t.Matrix, mode))
		out.Put("cache", Cache(t.Cache, mode))
		out.Put("remaining", anyMap(t.RemainingFields, mode))
	case *pipeline.WaitStep:
		out.Put("·kind", gt.StrN("wait"))
		out.Put("scalar", gt.StrN(t.Scalar))
		out.Put("contents", anyMap(t.Contents, mode))
	case *pipeline.InputStep:
		out.Put("·kind", gt.StrN("input"))
		out.Put("scalar", gt.StrN(t.Scalar))
		out.Put("contents", anyMap(t.Contents, mode))
	case *pipeline.TriggerStep:
		out.Put("·kind", gt.StrN("trigger"))
		out.Put("contents", anyMap(t.Contents, mode))
	case *pipeline.GroupStep:
		out.Put("·kind", gt.StrN("group"))
		out.Put("key", gt.StrN(t.Key))
		if t.Group == nil {
			out.Put("group", gt.NullN())
		} else {
			out.Put("group", gt.StrN(*t.Group))
		}
		out.Put("steps", Steps(t.Steps, mode))
		out.Put("remaining", anyMap(t.RemainingFields, mode))
	case *pipeline.UnknownStep:
		out.Put("·kind", gt.StrN("unknown"))
		out.Put("contents", Value(t.Contents))
	default:
		out.Put("·kind", gt.StrN(fmt.Sprintf("%T", s)))
	}
	return out
}

func Signature(s *pipeline.Signature) *gt.Node {
	if s == nil {
		return gt.NullN()
	}
	out := gt.MapN(false)
	out.Put("algorithm", gt.StrN(s.Algorithm))
	out.Put("signed_fields", strs(s.SignedFields, Norm))
	out.Put("value", gt.StrN(s.Value))
	return out
}

func Plugins(ps pipeline.Plugins, mode Mode) *gt.Node {
	if ps == nil && !mode.Norm {
		return gt.NullN()
	}
	out := gt.SeqN()
	for _, p := range ps {
		if p == nil {
			out.Items = append(out.Items, gt.NullN())
			continue
		}
		cfg := Value(p.Config)
		if mode.Norm && (cfg.Kind == gt.Map && len(cfg.Keys) == 0 || cfg.Kind == gt.Seq && len(cfg.Items) == 0) {
			cfg = gt.NullN()
		}
		out.Items = append(out.Items, gt.MapN(false).Put("source", gt.StrN(p.Source)).Put("config", cfg))
	}
	return out
}

func Matrix(m *pipeline.Matrix, mode Mode) *gt.Node {
	if m == nil {
		return gt.NullN()
	}
	if mode.Norm && len(m.Setup) == 0 && len(m.Adjustments) == 0 && len(m.RemainingFields) == 0 {
		return gt.NullN()
	}
	out := gt.MapN(false)
	if m.Setup == nil && !mode.Norm {
		out.Put("setup", gt.NullN())
	} else {
		su := gt.MapN(false)
		for _, k := range sortedKeys(m.Setup) {
			su.Put(k, strs(m.Setup[k], mode))
		}
		out.Put("setup", su)
	}
	if m.Adjustments == nil && !mode.Norm {
		out.Put("adjustments", gt.NullN())
	} else {
		adjs := gt.SeqN()
		for _, a := range m.Adjustments {
			if a == nil {
				adjs.Items = append(adjs.Items, gt.NullN())
				continue
			}
			an := gt.MapN(false)
			an.Put("with", strMap(a.With, mode))
			sk := Value(a.Skip)
			if mode.Norm && sk.Kind == gt.Bool && !sk.B {
				sk = gt.NullN()
			}
			an.Put("skip", sk)
			an.Put("remaining", anyMap(a.RemainingFields, mode))
			adjs.Items = append(adjs.Items, an)
		}
		out.Put("adjustments", adjs)
	}
	out.Put("remaining", anyMap(m.RemainingFields, mode))
	return out
}

func Cache(c *pipeline.Cache, mode Mode) *gt.Node {
	if c == nil {
		return gt.NullN()
	}
	out := gt.MapN(false)
	out.Put("disabled", gt.BoolN(c.Disabled))
	out.Put("name", gt.StrN(c.Name))
	out.Put("paths", strs(c.Paths, mode))
	out.Put("size", gt.StrN(c.Size))
	out.Put("remaining", anyMap(c.RemainingFields, mode))
	return out
}

// MapStrings returns a deep copy of n with f applied to every string value and
// every mapping key, except below any mapping key listed in skip (e.g.
// "signature"). Used to build "expected after interpolation" trees.
func MapStrings(n *gt.Node, f func(path string, s string, isKey bool) string, skip map[string]bool) *gt.Node {
	return mapStrings("$", n, f, skip)
}

func mapStrings(p string, n *gt.Node, f func(string, string, bool) string, skip map[string]bool) *gt.Node {
	if n == nil {
		return nil
	}
	c := *n
	switch n.Kind {
	case gt.Str:
		c.S = f(p, n.S, false)
	case gt.Seq:
		c.Items = make([]*gt.Node, len(n.Items))
		for i, x := range n.Items {
			c.Items[i] = mapStrings(fmt.Sprintf("%s[%d]", p, i), x, f, skip)
		}
	case gt.Map:
		c.Keys = make([]string, len(n.Keys))
		c.Vals = make([]*gt.Node, len(n.Vals))
		for i, k := range n.Keys {
			if skip[k] {
				c.Keys[i] = k
				c.Vals[i] = n.Vals[i].Clone()
				continue
			}
			c.Keys[i] = f(p+"."+k, k, true)
			c.Vals[i] = mapStrings(p+"."+k, n.Vals[i], f, skip)
		}
	}
	return &c
}
