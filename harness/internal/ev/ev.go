// Package ev is the evidence recorder and run-configuration glue shared by
// every property package: tier / seed / shard handling, rapid configuration,
// case counting with a measured distinct-non-trivial set, samples, replay files
// and the known-findings file.
package ev

import (
	"encoding/binary"
	"encoding/json"
	"flag"
	"fmt"
	"hash/fnv"
	"os"
	"path/filepath"
	"sort"
	"strconv"
	"strings"
	"sync"
	"testing"
	"time"

	"pgregory.net/rapid"
)

// ---------------------------------------------------------------------------
// run configuration (all from the environment, set by /verif/check)

func envInt(name string, def int) int {
	if v, ok := os.LookupEnv(name); ok {
		if n, err := strconv.ParseInt(strings.TrimSpace(v), 0, 64); err == nil {
			return int(n)
		}
	}
	return def
}

// Tier is "quick" or "thorough".
func Tier() string {
	if os.Getenv("VERIF_TIER") == "thorough" {
		return "thorough"
	}
	return "quick"
}

func Thorough() bool { return Tier() == "thorough" }

// Shard / Shards: the driver runs the same binary Shards() times in the
// thorough tier; rapid seeds differ per shard and enumerators partition.
func Shard() int { return envInt("VERIF_SHARD", 0) }
func Shards() int {
	n := envInt("VERIF_SHARDS", 1)
	if n < 1 {
		n = 1
	}
	return n
}

// BaseSeed is VERIF_SEED (default 1).
func BaseSeed() uint64 {
	if v, ok := os.LookupEnv("VERIF_SEED"); ok {
		if n, err := strconv.ParseInt(strings.TrimSpace(v), 0, 64); err == nil {
			return uint64(n)
		}
		if n, err := strconv.ParseUint(strings.TrimSpace(v), 0, 64); err == nil {
			return n
		}
	}
	return 1
}

func splitmix(x uint64) uint64 {
	x += 0x9e3779b97f4a7c15
	x = (x ^ (x >> 30)) * 0xbf58476d1ce4e5b9
	x = (x ^ (x >> 27)) * 0x94d049bb133111eb
	return x ^ (x >> 31)
}

// SeedFor derives the rapid seed of one test in one shard. Never 0 (rapid
// treats 0 as "random").
func SeedFor(test string) uint64 {
	h := fnv.New64a()
	h.Write([]byte(test))
	s := splitmix(BaseSeed() ^ splitmix(h.Sum64()) ^ splitmix(uint64(Shard())*0x1000193))
	if s == 0 {
		s = 1
	}
	return s
}

// Scale multiplies case counts (VERIF_SCALE, percent; default 100). Used by the
// sensitivity runner to shorten runs; never by the registered commands.
func scale(n int) int {
	p := envInt("VERIF_SCALE", 100)
	n = n * p / 100
	if n < 1 {
		n = 1
	}
	return n
}

// N picks the case count for the current tier.
func N(quick, thorough int) int {
	if Thorough() {
		return scale(thorough)
	}
	// the quick tier of the slower checks is split over a few processes: the case count is shared out
	n := scale(quick)
	if sh := Shards(); sh > 1 {
		n = (n + sh - 1) / sh
	}
	return n
}

// Replaying reports whether this process is a replay of one saved case.
func Replaying() bool { return os.Getenv("VERIF_REPLAY") != "" }

// Check runs a rapid property with the tier's case count and the derived seed.
// quick / thorough are per-shard counts.
func Check(t *testing.T, quick, thorough int, prop func(*rapid.T)) {
	t.Helper()
	if ff := os.Getenv("VERIF_REPLAY"); ff != "" && strings.HasSuffix(ff, ".fail") {
		// replay of a rapid fail file: only the test it belongs to runs it
		if !strings.Contains(filepath.Base(ff), "-"+t.Name()+"-") {
			t.Skip("replay is for another test")
		}
		must(flag.Set("rapid.failfile", ff))
		rapid.Check(t, prop)
		return
	}
	if Replaying() {
		t.Skip("replay is for another test")
	}
	must(flag.Set("rapid.checks", strconv.Itoa(N(quick, thorough))))
	must(flag.Set("rapid.seed", strconv.FormatUint(SeedFor(t.Name()), 10)))
	if v := os.Getenv("VERIF_SHRINKTIME"); v != "" {
		must(flag.Set("rapid.shrinktime", v))
	}
	rapid.Check(t, prop)
}

func must(err error) {
	if err != nil {
		panic(err)
	}
}

// ---------------------------------------------------------------------------
// recorder

type Rec struct {
	mu        sync.Mutex
	Test      string
	Rule      string
	evals     int
	nontriv   map[uint64]struct{}
	classes   map[string]int
	excluded  map[string]int
	samples   []any
	ntSamples int
	exhaust   bool
	notes     []string
}

var (
	regMu sync.Mutex
	reg   []*Rec
	start = time.Now()
)

// New registers a recorder for one test.
func New(test, rule string) *Rec {
	r := &Rec{Test: test, Rule: rule, nontriv: map[uint64]struct{}{}, classes: map[string]int{}, excluded: map[string]int{}}
	regMu.Lock()
	reg = append(reg, r)
	regMu.Unlock()
	return r
}

// Case records one evaluated case. hash identifies the case (for distinctness);
// nontrivial is the property's stated rule; classes feed the histogram.
func (r *Rec) Case(hash uint64, nontrivial bool, classes ...string) {
	r.mu.Lock()
	r.evals++
	if nontrivial {
		r.nontriv[hash] = struct{}{}
	}
	for _, c := range classes {
		r.classes[c]++
	}
	r.mu.Unlock()
}

func (r *Rec) Class(cs ...string) {
	r.mu.Lock()
	for _, c := range cs {
		r.classes[c]++
	}
	r.mu.Unlock()
}

func (r *Rec) ClassN(c string, n int) {
	r.mu.Lock()
	r.classes[c] += n
	r.mu.Unlock()
}

// Excluded counts a case (or sub-case) kept out by construction.
func (r *Rec) Excluded(reason string) {
	r.mu.Lock()
	r.excluded[reason]++
	r.mu.Unlock()
}

func (r *Rec) Exhaustive() { r.mu.Lock(); r.exhaust = true; r.mu.Unlock() }

func (r *Rec) Note(s string) { r.mu.Lock(); r.notes = append(r.notes, s); r.mu.Unlock() }

// WantSample reports whether the recorder would keep a sample now: the first
// two cases of any kind and up to six non-trivial ones spread over the run.
func (r *Rec) WantSample(nontrivial bool) bool {
	r.mu.Lock()
	defer r.mu.Unlock()
	if len(r.samples) < 2 {
		return true
	}
	if nontrivial && r.ntSamples < 6 {
		// spread: take at evals 1,2, then powers of ~4
		want := 1
		for i := 0; i < r.ntSamples; i++ {
			want *= 4
		}
		return r.evals >= want
	}
	return false
}

func (r *Rec) Sample(nontrivial bool, v any) {
	r.mu.Lock()
	defer r.mu.Unlock()
	if len(r.samples) >= 10 {
		return
	}
	r.samples = append(r.samples, v)
	if nontrivial {
		r.ntSamples++
	}
}

// MaybeSample calls f only when a sample would be kept.
func (r *Rec) MaybeSample(nontrivial bool, f func() any) {
	if r.WantSample(nontrivial) {
		r.Sample(nontrivial, f())
	}
}

type statsFile struct {
	Test       string         `json:"test"`
	Rule       string         `json:"rule"`
	Evals      int            `json:"evals"`
	Nontrivial int            `json:"nontrivial"`
	Classes    map[string]int `json:"classes"`
	Excluded   map[string]int `json:"excluded"`
	Samples    []any          `json:"samples"`
	Exhaustive bool           `json:"exhaustive"`
	Notes      []string       `json:"notes,omitempty"`
	HashFile   string         `json:"hash_file"`
	Shard      int            `json:"shard"`
	WallS      float64        `json:"wall_s"`
}

// Flush writes every recorder to $VERIF_STATS_DIR (if set).
func Flush() {
	dir := os.Getenv("VERIF_STATS_DIR")
	if dir == "" {
		return
	}
	os.MkdirAll(dir, 0o755)
	regMu.Lock()
	defer regMu.Unlock()
	for i, r := range reg {
		r.mu.Lock()
		if r.evals == 0 {
			r.mu.Unlock()
			continue
		}
		base := fmt.Sprintf("%s-s%d-%d-%d", sanitize(r.Test), Shard(), os.Getpid(), i)
		hf := filepath.Join(dir, base+".hashes")
		hs := make([]uint64, 0, len(r.nontriv))
		for h := range r.nontriv {
			hs = append(hs, h)
		}
		sort.Slice(hs, func(a, b int) bool { return hs[a] < hs[b] })
		buf := make([]byte, 8*len(hs))
		for j, h := range hs {
			binary.LittleEndian.PutUint64(buf[8*j:], h)
		}
		os.WriteFile(hf, buf, 0o644)
		sf := statsFile{Test: r.Test, Rule: r.Rule, Evals: r.evals, Nontrivial: len(r.nontriv), Classes: r.classes,
			Excluded: r.excluded, Samples: r.samples, Exhaustive: r.exhaust, Notes: r.notes, HashFile: hf, Shard: Shard(), WallS: time.Since(start).Seconds()}
		b, err := json.Marshal(sf)
		if err != nil {
			// a sample that cannot be marshalled must not lose the counts
			sf.Samples = []any{fmt.Sprintf("unmarshallable sample: %v", err)}
			b, _ = json.Marshal(sf)
		}
		os.WriteFile(filepath.Join(dir, base+".json"), b, 0o644)
		r.mu.Unlock()
	}
}

func sanitize(s string) string {
	return strings.Map(func(r rune) rune {
		if r >= 'a' && r <= 'z' || r >= 'A' && r <= 'Z' || r >= '0' && r <= '9' || r == '_' {
			return r
		}
		return '_'
	}, s)
}

// Main is the TestMain body of every property package.
func Main(m *testing.M) {
	code := m.Run()
	Flush()
	os.Exit(code)
}

// ---------------------------------------------------------------------------
// hashing helpers

func HashBytes(b []byte) uint64 {
	h := fnv.New64a()
	h.Write(b)
	return splitmix(h.Sum64())
}

func HashStr(s string) uint64 { return HashBytes([]byte(s)) }

// Hash hashes the %#v-free, order-stable JSON rendering of its arguments; use
// only with values whose JSON form is deterministic (no Go maps with >1 key
// unless encoding/json sorts them, which it does).
func Hash(parts ...any) uint64 {
	h := fnv.New64a()
	for _, p := range parts {
		switch x := p.(type) {
		case string:
			h.Write([]byte(x))
		case []byte:
			h.Write(x)
		default:
			b, err := json.Marshal(x)
			if err != nil {
				fmt.Fprintf(h, "%v", x)
			} else {
				h.Write(b)
			}
		}
		h.Write([]byte{0xff})
	}
	return splitmix(h.Sum64())
}

// ---------------------------------------------------------------------------
// replay files for non-rapid (enumerated / table) checks

type caseFile struct {
	Test string          `json:"test"`
	Case json.RawMessage `json:"case"`
	Msg  string          `json:"msg,omitempty"`
}

var violN int

// SaveCase writes a JSON replay file for an enumerated case and returns its path.
func SaveCase(test string, c any, msg string) string {
	dir := os.Getenv("VERIF_REPLAY_DIR")
	if dir == "" {
		dir = os.TempDir()
	}
	os.MkdirAll(dir, 0o755)
	b, err := json.Marshal(c)
	if err != nil {
		b, _ = json.Marshal(fmt.Sprintf("%#v", c))
	}
	out, _ := json.MarshalIndent(caseFile{Test: test, Case: b, Msg: msg}, "", " ")
	regMu.Lock()
	violN++
	n := violN
	regMu.Unlock()
	p := filepath.Join(dir, fmt.Sprintf("%s-s%d-%d-%d.case.json", sanitize(test), Shard(), os.Getpid(), n))
	os.WriteFile(p, out, 0o644)
	return p
}

// FailCase saves the case and fails the test, naming the replay file so the
// driver can pick it up ("REPLAY-FILE: <path>").
func FailCase(t testing.TB, c any, format string, args ...any) {
	t.Helper()
	msg := fmt.Sprintf(format, args...)
	p := SaveCase(t.Name(), c, msg)
	fmt.Printf("REPLAY-FILE: %s\n", p)
	t.Fatalf("%s\ncase: %s", msg, trunc(fmt.Sprintf("%+v", c), 4000))
}

func trunc(s string, n int) string {
	if len(s) > n {
		return s[:n] + "…"
	}
	return s
}

// ReplayCase loads the case of a .case.json replay file if it belongs to test.
func ReplayCase(test string, into any) bool {
	p := os.Getenv("VERIF_REPLAY")
	if p == "" || !strings.HasSuffix(p, ".case.json") {
		return false
	}
	b, err := os.ReadFile(p)
	if err != nil {
		return false
	}
	var cf caseFile
	if json.Unmarshal(b, &cf) != nil || cf.Test != test {
		return false
	}
	return json.Unmarshal(cf.Case, into) == nil
}

// SkipIfReplayingOther skips plain tests during a replay that is not theirs.
func SkipIfReplayingOther(t *testing.T) {
	p := os.Getenv("VERIF_REPLAY")
	if p == "" {
		return
	}
	if strings.HasSuffix(p, ".case.json") {
		b, _ := os.ReadFile(p)
		var cf caseFile
		if json.Unmarshal(b, &cf) == nil && cf.Test == t.Name() {
			return
		}
	}
	t.Skip("replay is for another test")
}

// ---------------------------------------------------------------------------
// known findings

type finding struct {
	ID       string `json:"id"`
	Property any    `json:"property"`
	Status   string `json:"status"` // "known" or "fixed"
	What     string `json:"what"`
	Commit   string `json:"commit,omitempty"`
}

var (
	kfOnce sync.Once
	kf     map[string]finding
)

func loadKF() {
	kf = map[string]finding{}
	p := os.Getenv("VERIF_KNOWN_FINDINGS")
	if p == "" {
		p = "/verif/known_findings.json"
	}
	b, err := os.ReadFile(p)
	if err != nil {
		return
	}
	var doc struct {
		Findings []finding `json:"findings"`
	}
	if json.Unmarshal(b, &doc) != nil {
		return
	}
	for _, f := range doc.Findings {
		kf[f.ID] = f
	}
}

// Known reports whether finding id is listed with status "known" (so its class
// is excluded by construction and probed separately).
func Known(id string) bool {
	kfOnce.Do(loadKF)
	f, ok := kf[id]
	return ok && f.Status == "known"
}

// KnownWhat returns the description of a listed finding.
func KnownWhat(id string) string {
	kfOnce.Do(loadKF)
	return kf[id].What
}

// ReportKnown prints the KNOWN-FINDING line (forwarded by the driver).
func ReportKnown(prop, id string) {
	fmt.Printf("KNOWN-FINDING: property=%s %s: %s\n", prop, id, KnownWhat(id))
}
