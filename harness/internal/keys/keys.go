// Package keys provides the per-process key pool: two key pairs each of EdDSA,
// ES512 and PS512 (generated through jwkutil.NewKeyPair, same kid within a
// kind so "another key of the same kind and the same kid" exists) and two P-256
// crypto.Signer wrappers that report ES256.
package keys

import (
	"crypto"
	"crypto/ecdsa"
	"crypto/elliptic"
	"crypto/rand"
	"errors"
	"io"
	"sync"

	"github.com/buildkite/go-pipeline/jwkutil"
	"github.com/buildkite/go-pipeline/signature"
	"github.com/lestrrat-go/jwx/v2/jwa"
	"github.com/lestrrat-go/jwx/v2/jwk"
)

type Pair struct {
	Name    string
	Alg     string
	Kind    string        // "EdDSA", "ES512", "PS512", "ES256-signer"
	Priv    signature.Key // what Sign takes
	PrivSet jwk.Set       // nil for signers
	Pub     any           // what Verify takes: jwk.Set (public half only) or a verify-only crypto.Signer
	PubSet  jwk.Set
}

// Signer is a crypto.Signer over a P-256 key that reports ES256, the shape the
// library documents for KMS-style keys.
type Signer struct {
	priv *ecdsa.PrivateKey
	pub  crypto.PublicKey
}

func (s Signer) Public() crypto.PublicKey { return s.pub }
func (s Signer) Sign(r io.Reader, digest []byte, _ crypto.SignerOpts) ([]byte, error) {
	if s.priv == nil {
		return nil, errors.New("verify-only signer: no private key")
	}
	return ecdsa.SignASN1(r, s.priv, digest)
}
func (s Signer) Algorithm() jwa.KeyAlgorithm { return jwa.ES256 }

var (
	once sync.Once
	pool []Pair
)

func mk(kind string, alg jwa.SignatureAlgorithm, n int) {
	for i := 0; i < n; i++ {
		priv, pub, err := jwkutil.NewKeyPair("kid-"+kind, alg)
		if err != nil {
			panic(err)
		}
		k, ok := priv.Key(0)
		if !ok {
			panic("no key")
		}
		pool = append(pool, Pair{Name: kind + string(rune('A'+i)), Alg: alg.String(), Kind: kind, Priv: k, PrivSet: priv, Pub: pub, PubSet: pub})
	}
}

// Pool returns all key pairs (8). RSA generation dominates (~0.1-0.5 s each).
func Pool() []Pair {
	once.Do(func() {
		mk("EdDSA", jwa.EdDSA, 2)
		mk("ES512", jwa.ES512, 2)
		mk("PS512", jwa.PS512, 2)
		for i := 0; i < 2; i++ {
			pk, err := ecdsa.GenerateKey(elliptic.P256(), rand.Reader)
			if err != nil {
				panic(err)
			}
			pool = append(pool, Pair{Name: "ES256signer" + string(rune('A'+i)), Alg: "ES256", Kind: "ES256-signer",
				Priv: Signer{priv: pk, pub: pk.Public()}, Pub: Signer{pub: pk.Public()}})
		}
	})
	return pool
}

// Fast returns the cheap pairs only (EdDSA): Ed25519 signatures are
// deterministic, which C14 uses as a second payload tap.
func Fast() []Pair { return Pool()[:2] }

// Other returns the other pair of the same kind (same kid).
func Other(p Pair) Pair {
	for _, q := range Pool() {
		if q.Kind == p.Kind && q.Name != p.Name {
			return q
		}
	}
	panic("no twin")
}
