// Package sgen generates command steps as structs (the form the signing code
// sees), pipeline env maps and repository URLs, and provides deep copies.
// Numbers inside signed content stay within the I-JSON range (RFC 8785 defines
// canonical numbers as IEEE doubles, so larger integers are not distinct JCS
// numbers - the specification's limit, not the library's).
package sgen

import (
	"fmt"

	pipeline "github.com/buildkite/go-pipeline"
	"github.com/buildkite/go-pipeline/ordered"
	"pgregory.net/rapid"

	"verif/harness/internal/plug"
	"verif/harness/internal/strs"
)

type Opts struct {
	// SimpleStrings uses tame strings (faster, smaller) instead of domain S.
	SimpleStrings bool
	// BigMaps biases env / config maps beyond 8 entries.
	BigMaps bool
	// NilDims: a named dimension's value list may be nil (a dimension declared without values, as a
	// struct-built step has it) instead of empty.
	NilDims bool
}

type G struct {
	T *rapid.T
	O Opts
	n int
	// wide / big collections generated so far (see size)
	wide, big int
}

func New(t *rapid.T, o Opts) *G { return &G{T: t, O: o} }

func (g *G) Str(label string) string {
	if g.O.SimpleStrings {
		return strs.Simple().Draw(g.T, label)
	}
	if rapid.IntRange(0, 2).Draw(g.T, label+"simple") == 0 {
		return strs.Simple().Draw(g.T, label)
	}
	return strs.S().Draw(g.T, label)
}

func (g *G) intn(label string, lo, hi int) int { return rapid.IntRange(lo, hi).Draw(g.T, label) }

// size draws a collection size. Wide (65-90) and big (9-20) collections are budgeted per generator
// (2 and 8): nested wide collections would otherwise multiply into cases of a million draws, which
// are slow to run and which rapid's shrinker cannot even start on (its pruning pass is quadratic).
func (g *G) size(label string, small int) int {
	if g.O.BigMaps && g.wide < 2 && g.intn(label+"wide", 0, 39) == 0 {
		g.wide++
		return g.intn(label+"wn", 65, 90)
	}
	if g.O.BigMaps && g.big < 8 && g.intn(label+"big", 0, 5) == 0 {
		g.big++
		return g.intn(label+"n", 9, 20)
	}
	return g.intn(label, 0, small)
}

var EnvNames = []string{"FOO", "BAR", "BAZ", "PATH", "HOME", "CI", "A", "B", "C", "DEPLOY", "lower", "Mixed",
	// names a real job environment holds
	"BUILDKITE", "BUILDKITE_COMMIT", "BUILDKITE_BRANCH", "BUILDKITE_SHELL", "BUILDKITE_BUILD_PATH", "BUILDKITE_AGENT_ACCESS_TOKEN",
	"BUILDKITE_PLUGINS_ENABLED", "BUILDKITE_COMMAND_EVAL", "BUILDKITE_HOOKS_PATH", "BUILDKITE_JOB_ID", "BUILDKITE_REPO", "BUILDKITE_PIPELINE_SLUG",
	"LD_PRELOAD", "GIT_SSH_COMMAND", "SHELL", "USER", "TERM", "_", "BASH_ENV", "ENV"}

func (g *G) EnvName(label string) string {
	if g.intn(label+"kind", 0, 3) == 0 {
		return g.Str(label)
	}
	return rapid.SampledFrom(EnvNames).Draw(g.T, label)
}

// EnvMap generates a map of n-ish entries.
func (g *G) EnvMap(label string, small int) map[string]string {
	n := g.size(label, small)
	m := make(map[string]string, n)
	for i := 0; i < n; i++ {
		k := g.EnvName(label + "k")
		if n > 20 {
			k = fmt.Sprintf("%s_%d", k, i)
		}
		m[k] = g.Str(label + "v")
	}
	return m
}

// Scalar generates a JSON-representable scalar within the I-JSON range.
func (g *G) Scalar(label string) any {
	switch g.intn(label+"kind", 0, 7) {
	case 0:
		return rapid.SampledFrom([]int{0, 1, -1, 42, 1 << 31, -(1 << 40), 9007199254740991, -9007199254740991}).Draw(g.T, label+"int")
	case 1:
		return rapid.SampledFrom([]float64{0.5, -1.25, 1e21, 1e-7, 3, 6.02e23, -0.1}).Draw(g.T, label+"float")
	case 2:
		return rapid.Bool().Draw(g.T, label+"bool")
	case 3:
		return nil
	}
	return g.Str(label + "str")
}

// Value generates a plugin-config style value: Go maps, slices, scalars.
func (g *G) Value(label string, depth int) any {
	switch k := g.intn(label+"vk", 0, 9); {
	case depth >= 3 || k < 5:
		return g.Scalar(label)
	case k < 7:
		n := g.intn(label+"sn", 0, 3)
		s := make([]any, 0, n)
		for i := 0; i < n; i++ {
			s = append(s, g.Value(label, depth+1))
		}
		return s
	default:
		return g.Map(label, depth+1)
	}
}

func (g *G) Map(label string, depth int) map[string]any {
	n := g.size(label+"mn", 3)
	m := make(map[string]any, n)
	for i := 0; i < n; i++ {
		m[fmt.Sprintf("%s%d", g.Str(label+"mk"), i)] = g.Value(label, depth)
	}
	return m
}

// OrderedValue is like Value but with *ordered.MapSA for mappings (what
// unknown fields hold after a parse).
func (g *G) OrderedValue(label string, depth int) any {
	switch k := g.intn(label+"vk", 0, 9); {
	case depth >= 3 || k < 6:
		return g.Scalar(label)
	case k < 8:
		n := g.intn(label+"sn", 0, 3)
		s := make([]any, 0, n)
		for i := 0; i < n; i++ {
			s = append(s, g.OrderedValue(label, depth+1))
		}
		return s
	default:
		n := g.intn(label+"mn", 0, 3)
		m := ordered.NewMap[string, any](n)
		for i := 0; i < n; i++ {
			m.Set(fmt.Sprintf("%s%d", g.Str(label+"mk"), i), g.OrderedValue(label, depth+1))
		}
		return m
	}
}

// Plugins generates 0-4 plugins with distinct canonical sources.
func (g *G) Plugins() (pipeline.Plugins, map[string]string) {
	canon := map[string]string{}
	var ps pipeline.Plugins
	switch g.intn("pluginsform", 0, 5) {
	case 0:
		return nil, canon
	case 1:
		return pipeline.Plugins{}, canon
	}
	seen := map[string]bool{}
	for i, n := 0, g.intn("nplugins", 1, 4); i < n; i++ {
		s := plug.Gen().Draw(g.T, "src")
		if seen[s.Canon] {
			continue
		}
		seen[s.Canon] = true
		canon[s.Text] = s.Canon
		var cfg any
		switch g.intn("cfgform", 0, 8) {
		case 0:
			cfg = nil
		case 1:
			cfg = map[string]any{}
		case 3:
			// a non-empty list as the whole config (unusual, but the parser accepts it and it is content)
			cfg = []any{g.Str("listcfg"), map[string]any{"from": g.Str("listcfg2")}}
		case 2:
			// a scalar as the whole config (falsy ones included: they are content, not "empty")
			cfg = rapid.SampledFrom([]any{false, 0, "", true, 1, "x", 0.5}).Draw(g.T, "scalarcfg")
		default:
			cfg = g.Map("cfg", 1)
		}
		ps = append(ps, &pipeline.Plugin{Source: s.Text, Config: cfg})
	}
	// the same plugin a second time (same source, letter for letter) with a config of its own, e.g. two
	// registries for one login plugin: two entries of the list, both content
	if len(ps) > 0 && g.intn("repeatplugin", 0, 5) == 0 {
		first := ps[g.intn("repeatwhich", 0, len(ps)-1)]
		ps = append(ps, &pipeline.Plugin{Source: first.Source, Config: map[string]any{"second-use": g.Str("repeatcfg"), "n": len(ps)}})
	}
	return ps, canon
}

var DimNames = []string{"os", "arch", "version"}

// Matrix generates nil, empty, simple and full matrices.
func (g *G) Matrix() *pipeline.Matrix {
	switch g.intn("matrixform", 0, 7) {
	case 0, 1, 2:
		return nil
	case 3:
		return &pipeline.Matrix{}
	case 4:
		// simple list - which stops being "simple" as soon as the matrix carries anything else
		m := &pipeline.Matrix{Setup: pipeline.MatrixSetup{"": g.strList("mv", 1, 3)}}
		if g.intn("anonextras", 0, 3) == 0 {
			m.RemainingFields = map[string]any{"extra": g.Value("anonextra", 1)}
		}
		return m
	}
	if g.intn("nodims", 0, 7) == 0 {
		// a matrix without dimensions that is not empty: adjustments that name no dimension, extras
		// (nil setup and nil `with`, the shape a parse gives)
		m := &pipeline.Matrix{}
		for i, n := 0, g.intn("nadj0", 1, 2); i < n; i++ {
			a := &pipeline.MatrixAdjustment{Skip: rapid.SampledFrom([]any{nil, false, true, "reason"}).Draw(g.T, "skip0")}
			if g.intn("adjrem0", 0, 2) == 0 {
				a.RemainingFields = map[string]any{"soft_fail": g.Scalar("softfail0")}
			}
			m.Adjustments = append(m.Adjustments, a)
		}
		if g.intn("mrem0", 0, 2) == 0 {
			m.RemainingFields = map[string]any{"extra": g.Value("mextra0", 1)}
		}
		return m
	}
	m := &pipeline.Matrix{Setup: pipeline.MatrixSetup{}}
	nd := g.intn("ndims", 1, 3)
	for i := 0; i < nd; i++ {
		m.Setup[DimNames[i]] = g.strList("mv", 0, 3)
		if g.O.NilDims && len(m.Setup[DimNames[i]]) == 0 && g.intn("nildim", 0, 1) == 0 {
			m.Setup[DimNames[i]] = nil
		}
	}
	if g.intn("mixedanon", 0, 2) == 0 {
		// the anonymous dimension written explicitly next to named ones
		m.Setup[""] = g.strList("mv", 1, 2)
	}
	for i, n := 0, g.intn("nadj", 0, 2); i < n; i++ {
		a := &pipeline.MatrixAdjustment{With: pipeline.MatrixAdjustmentWith{}}
		for d := range m.Setup {
			a.With[d] = g.Str("withv")
		}
		a.Skip = rapid.SampledFrom([]any{nil, nil, false, true, "broken on this platform"}).Draw(g.T, "skip")
		if g.intn("adjrem", 0, 2) == 0 {
			a.RemainingFields = map[string]any{"soft_fail": g.Scalar("softfail")}
		}
		m.Adjustments = append(m.Adjustments, a)
	}
	if g.intn("mrem", 0, 3) == 0 {
		m.RemainingFields = map[string]any{"extra": g.Value("mextra", 1)}
	}
	return m
}

func (g *G) strList(label string, lo, hi int) []string {
	n := g.intn(label+"n", lo, hi)
	// spare capacity now and then (slices built with append have it): an append through a copy of the
	// slice header then writes into the same backing array
	l := make([]string, 0, n+g.intn(label+"spare", 0, 3))
	for i := 0; i < n; i++ {
		l = append(l, g.Str(label))
	}
	return l
}

// Step generates a command step; canon maps its plugin sources to canonical form.
func (g *G) Step() (*pipeline.CommandStep, map[string]string) {
	s := &pipeline.CommandStep{
		Command: g.Str("command"),
	}
	if g.intn("multiline", 0, 3) == 0 {
		s.Command += "\n" + g.Str("command2")
	}
	if g.intn("haslabel", 0, 1) == 0 {
		s.Label = g.Str("label")
	}
	if g.intn("haskey", 0, 2) == 0 {
		s.Key = g.Str("key")
	}
	switch g.intn("envform", 0, 4) {
	case 0:
		s.Env = nil
	case 1:
		s.Env = map[string]string{}
	default:
		s.Env = g.EnvMap("stepenv", 3)
	}
	var canon map[string]string
	s.Plugins, canon = g.Plugins()
	s.Matrix = g.Matrix()
	if g.intn("hascache", 0, 3) == 0 {
		s.Cache = &pipeline.Cache{Paths: []string{g.Str("cachepath")}, Name: g.Str("cachename")}
	}
	if g.intn("hasrem", 0, 1) == 0 {
		s.RemainingFields = map[string]any{}
		for i, n := 0, g.intn("nrem", 1, 3); i < n; i++ {
			s.RemainingFields[rapid.SampledFrom([]string{"agents", "retry", "if", "depends_on", "timeout_in_minutes", "soft_fail"}).Draw(g.T, "remk")] = g.OrderedValue("rem", 1)
		}
	}
	return s, canon
}

func (g *G) RepoURL() string {
	if g.intn("repokind", 0, 3) == 0 {
		return g.Str("repo")
	}
	return rapid.SampledFrom([]string{"git@github.com:org/repo.git", "https://github.com/org/repo", "", "ssh://git@host/x.git", "file:///tmp/r"}).Draw(g.T, "repourl")
}

// ---------------------------------------------------------------------------
// deep copies

func CopyAny(v any) any {
	switch t := v.(type) {
	case map[string]any:
		if t == nil {
			return t
		}
		c := make(map[string]any, len(t))
		for k, x := range t {
			c[k] = CopyAny(x)
		}
		return c
	case []any:
		if t == nil {
			return t
		}
		c := make([]any, len(t))
		for i, x := range t {
			c[i] = CopyAny(x)
		}
		return c
	case *ordered.MapSA:
		if t == nil {
			return t
		}
		c := ordered.NewMap[string, any](t.Len())
		t.Range(func(k string, x any) error { c.Set(k, CopyAny(x)); return nil })
		return c
	case map[string]string:
		return CopyStrMap(t)
	case []string:
		return append([]string(nil), t...)
	}
	return v
}

func CopyStrMap(m map[string]string) map[string]string {
	if m == nil {
		return nil
	}
	c := make(map[string]string, len(m))
	for k, v := range m {
		c[k] = v
	}
	return c
}

func copyAnyMap(m map[string]any) map[string]any {
	if m == nil {
		return nil
	}
	return CopyAny(m).(map[string]any)
}

func CopyMatrix(m *pipeline.Matrix) *pipeline.Matrix {
	if m == nil {
		return nil
	}
	c := &pipeline.Matrix{RemainingFields: copyAnyMap(m.RemainingFields)}
	if m.Setup != nil {
		c.Setup = pipeline.MatrixSetup{}
		for d, vs := range m.Setup {
			if vs == nil {
				c.Setup[d] = nil
			} else {
				c.Setup[d] = append([]string{}, vs...)
			}
		}
	}
	if m.Adjustments != nil {
		c.Adjustments = pipeline.MatrixAdjustments{}
		for _, a := range m.Adjustments {
			if a == nil {
				c.Adjustments = append(c.Adjustments, nil)
				continue
			}
			c.Adjustments = append(c.Adjustments, &pipeline.MatrixAdjustment{
				With: pipeline.MatrixAdjustmentWith(CopyStrMap(a.With)), Skip: CopyAny(a.Skip), RemainingFields: copyAnyMap(a.RemainingFields)})
		}
	}
	return c
}

func CopyStep(s *pipeline.CommandStep) *pipeline.CommandStep {
	if s == nil {
		return nil
	}
	c := &pipeline.CommandStep{Key: s.Key, Label: s.Label, Command: s.Command, Env: CopyStrMap(s.Env),
		Matrix: CopyMatrix(s.Matrix), RemainingFields: copyAnyMap(s.RemainingFields)}
	if s.Plugins != nil {
		c.Plugins = pipeline.Plugins{}
		for _, p := range s.Plugins {
			c.Plugins = append(c.Plugins, &pipeline.Plugin{Source: p.Source, Config: CopyAny(p.Config)})
		}
	}
	if s.Signature != nil {
		c.Signature = &pipeline.Signature{Algorithm: s.Signature.Algorithm, SignedFields: append([]string(nil), s.Signature.SignedFields...), Value: s.Signature.Value}
	}
	if s.Cache != nil {
		c.Cache = &pipeline.Cache{Disabled: s.Cache.Disabled, Name: s.Cache.Name, Paths: append([]string(nil), s.Cache.Paths...), Size: s.Cache.Size, RemainingFields: copyAnyMap(s.Cache.RemainingFields)}
	}
	return c
}
