// Package gt is a generic, order-aware tree used as the common currency of the
// oracles: expected documents, decoded JSON / YAML output and walks over the
// library's object model are all turned into *gt.Node and compared here.
// Readers in this package never call go-pipeline code.
package gt

import (
	"bytes"
	"encoding/json"
	"fmt"
	"io"
	"math"
	"sort"
	"strconv"
	"strings"
	"time"

	"gopkg.in/yaml.v3"
)

type Kind uint8

const (
	Null Kind = iota
	Bool
	Int   // int64 in I
	Uint  // uint64 above MaxInt64 in U
	Float // float64 in F
	Str
	Time
	Seq
	Map
)

func (k Kind) String() string {
	return [...]string{"null", "bool", "int", "uint", "float", "str", "time", "seq", "map"}[k]
}

type Node struct {
	Kind  Kind
	B     bool
	I     int64
	U     uint64
	F     float64
	S     string
	T     time.Time
	Items []*Node
	Keys  []string
	Vals  []*Node
	// Ordered marks a mapping whose key order is significant (came from / goes
	// to an order-preserving map). Two maps are compared as sequences only when
	// both are Ordered.
	Ordered bool
	// Tag is a free annotation (ignored by Diff).
	Tag string
}

func NullN() *Node              { return &Node{Kind: Null} }
func BoolN(b bool) *Node        { return &Node{Kind: Bool, B: b} }
func IntN(i int64) *Node        { return &Node{Kind: Int, I: i} }
func UintN(u uint64) *Node      { return &Node{Kind: Uint, U: u} }
func FloatN(f float64) *Node    { return &Node{Kind: Float, F: f} }
func StrN(s string) *Node       { return &Node{Kind: Str, S: s} }
func TimeN(t time.Time) *Node   { return &Node{Kind: Time, T: t} }
func SeqN(items ...*Node) *Node { return &Node{Kind: Seq, Items: append([]*Node{}, items...)} }
func MapN(ordered bool) *Node   { return &Node{Kind: Map, Ordered: ordered} }

func (n *Node) Put(k string, v *Node) *Node {
	for i, kk := range n.Keys {
		if kk == k {
			n.Vals[i] = v
			return n
		}
	}
	n.Keys = append(n.Keys, k)
	n.Vals = append(n.Vals, v)
	return n
}

func (n *Node) Get(k string) (*Node, bool) {
	if n == nil || n.Kind != Map {
		return nil, false
	}
	for i, kk := range n.Keys {
		if kk == k {
			return n.Vals[i], true
		}
	}
	return nil, false
}

func (n *Node) Has(k string) bool { _, ok := n.Get(k); return ok }

func (n *Node) Del(k string) {
	for i, kk := range n.Keys {
		if kk == k {
			n.Keys = append(n.Keys[:i:i], n.Keys[i+1:]...)
			n.Vals = append(n.Vals[:i:i], n.Vals[i+1:]...)
			return
		}
	}
}

func (n *Node) Clone() *Node {
	if n == nil {
		return nil
	}
	c := *n
	if n.Items != nil {
		c.Items = make([]*Node, len(n.Items))
		for i, x := range n.Items {
			c.Items[i] = x.Clone()
		}
	}
	if n.Keys != nil {
		c.Keys = append([]string{}, n.Keys...)
		c.Vals = make([]*Node, len(n.Vals))
		for i, x := range n.Vals {
			c.Vals[i] = x.Clone()
		}
	}
	return &c
}

// IsNum reports whether the node is a number of any representation.
func (n *Node) IsNum() bool { return n.Kind == Int || n.Kind == Uint || n.Kind == Float }

func (n *Node) asFloat() float64 {
	switch n.Kind {
	case Int:
		return float64(n.I)
	case Uint:
		return float64(n.U)
	}
	return n.F
}

// numEqual compares numbers by value: exact for two integers, float64 equality
// otherwise (an integral float equals the integer it denotes).
func numEqual(a, b *Node) bool {
	ai := a.Kind == Int || a.Kind == Uint
	bi := b.Kind == Int || b.Kind == Uint
	if ai && bi {
		if a.Kind == b.Kind {
			return a.I == b.I && a.U == b.U
		}
		// Int vs Uint: Uint is only used above MaxInt64
		return false
	}
	if ai != bi {
		// integer vs float: equal when the float is integral and denotes it
		f, i := a, b
		if ai {
			f, i = b, a
		}
		if f.F != math.Trunc(f.F) || math.IsInf(f.F, 0) {
			return false
		}
		if i.Kind == Int {
			return float64(i.I) == f.F && (math.Abs(f.F) < 1<<53 || int64(f.F) == i.I)
		}
		return float64(i.U) == f.F
	}
	if math.IsNaN(a.F) && math.IsNaN(b.F) {
		return true
	}
	return a.F == b.F
}

// Opt tunes Equal.
type Opt struct {
	// TimeAsString lets a Time node match the Str node holding its RFC 3339
	// rendering (JSON has no timestamps).
	TimeAsString bool
	// IgnoreOrder compares every map as a set even if both are Ordered.
	IgnoreOrder bool
}

// Diff returns "" if a and b are equal under o, else a description of the first
// difference found, prefixed by its path.
func Diff(a, b *Node, o Opt) string { return diff("$", a, b, o) }

func Equal(a, b *Node, o Opt) bool { return diff("$", a, b, o) == "" }

func timeStr(t time.Time) string { return t.Format(time.RFC3339Nano) }

func diff(p string, a, b *Node, o Opt) string {
	if a == nil || b == nil {
		if a == b {
			return ""
		}
		return fmt.Sprintf("%s: one side missing (%s vs %s)", p, Show(a), Show(b))
	}
	if a.IsNum() && b.IsNum() {
		if numEqual(a, b) {
			return ""
		}
		return fmt.Sprintf("%s: number %s != %s", p, Show(a), Show(b))
	}
	if o.TimeAsString {
		if a.Kind == Time && b.Kind == Str {
			if timeStr(a.T) == b.S || sameInstantStr(a.T, b.S) {
				return ""
			}
			return fmt.Sprintf("%s: time %s != string %q", p, timeStr(a.T), b.S)
		}
		if a.Kind == Str && b.Kind == Time {
			return diff(p, b, a, o)
		}
	}
	if a.Kind != b.Kind {
		return fmt.Sprintf("%s: kind %s (%s) != %s (%s)", p, a.Kind, Show(a), b.Kind, Show(b))
	}
	switch a.Kind {
	case Null:
		return ""
	case Bool:
		if a.B != b.B {
			return fmt.Sprintf("%s: %v != %v", p, a.B, b.B)
		}
	case Str:
		if a.S != b.S {
			return fmt.Sprintf("%s: %q != %q", p, a.S, b.S)
		}
	case Time:
		if !a.T.Equal(b.T) {
			return fmt.Sprintf("%s: time %s != %s", p, timeStr(a.T), timeStr(b.T))
		}
	case Seq:
		if len(a.Items) != len(b.Items) {
			return fmt.Sprintf("%s: seq len %d != %d (%s vs %s)", p, len(a.Items), len(b.Items), Show(a), Show(b))
		}
		for i := range a.Items {
			if d := diff(fmt.Sprintf("%s[%d]", p, i), a.Items[i], b.Items[i], o); d != "" {
				return d
			}
		}
	case Map:
		if len(a.Keys) != len(b.Keys) {
			return fmt.Sprintf("%s: map size %d != %d; keys %q vs %q", p, len(a.Keys), len(b.Keys), a.Keys, b.Keys)
		}
		if a.Ordered && b.Ordered && !o.IgnoreOrder {
			for i := range a.Keys {
				if a.Keys[i] != b.Keys[i] {
					return fmt.Sprintf("%s: key order differs at %d: %q vs %q", p, i, a.Keys, b.Keys)
				}
			}
		}
		seen := map[string]bool{}
		for i, k := range a.Keys {
			if seen[k] {
				return fmt.Sprintf("%s: duplicate key %q on left", p, k)
			}
			seen[k] = true
			bv, ok := b.Get(k)
			if !ok {
				return fmt.Sprintf("%s: key %q missing on right; keys %q vs %q", p, k, a.Keys, b.Keys)
			}
			if d := diff(p+"."+strconv.Quote(k), a.Vals[i], bv, o); d != "" {
				return d
			}
		}
		seenb := map[string]bool{}
		for _, k := range b.Keys {
			if seenb[k] {
				return fmt.Sprintf("%s: duplicate key %q on right", p, k)
			}
			seenb[k] = true
		}
	}
	return ""
}

func sameInstantStr(t time.Time, s string) bool {
	for _, layout := range []string{time.RFC3339Nano, "2006-01-02T15:04:05.999999999Z07:00", "2006-01-02"} {
		if u, err := time.Parse(layout, s); err == nil && u.Equal(t) {
			return true
		}
	}
	return false
}

// Show renders a node compactly (JSON-like) for messages and samples.
func Show(n *Node) string {
	var b strings.Builder
	show(&b, n, 0)
	s := b.String()
	if len(s) > 1500 {
		s = s[:1500] + "…"
	}
	return s
}

func show(b *strings.Builder, n *Node, depth int) {
	if n == nil {
		b.WriteString("<absent>")
		return
	}
	switch n.Kind {
	case Null:
		b.WriteString("null")
	case Bool:
		fmt.Fprintf(b, "%v", n.B)
	case Int:
		fmt.Fprintf(b, "%d", n.I)
	case Uint:
		fmt.Fprintf(b, "%d", n.U)
	case Float:
		fmt.Fprintf(b, "%sf", strconv.FormatFloat(n.F, 'g', -1, 64))
	case Str:
		b.WriteString(strconv.Quote(n.S))
	case Time:
		fmt.Fprintf(b, "T(%s)", timeStr(n.T))
	case Seq:
		b.WriteByte('[')
		for i, x := range n.Items {
			if i > 0 {
				b.WriteByte(',')
			}
			show(b, x, depth+1)
		}
		b.WriteByte(']')
	case Map:
		if n.Ordered {
			b.WriteString("o{")
		} else {
			b.WriteByte('{')
		}
		for i, k := range n.Keys {
			if i > 0 {
				b.WriteByte(',')
			}
			b.WriteString(strconv.Quote(k))
			b.WriteByte(':')
			show(b, n.Vals[i], depth+1)
		}
		b.WriteByte('}')
	}
}

// ---------------------------------------------------------------------------
// readers

// FromJSON reads one JSON value preserving object key order. Every object is
// marked Ordered (the reader saw an order); the comparator only uses it where
// the expected side is Ordered too.
func FromJSON(b []byte) (*Node, error) {
	dec := json.NewDecoder(bytes.NewReader(b))
	dec.UseNumber()
	n, err := readJSON(dec)
	if err != nil {
		return nil, err
	}
	if _, err := dec.Token(); err != io.EOF {
		return nil, fmt.Errorf("trailing data after JSON value")
	}
	return n, nil
}

func readJSON(dec *json.Decoder) (*Node, error) {
	tok, err := dec.Token()
	if err != nil {
		return nil, err
	}
	switch t := tok.(type) {
	case nil:
		return NullN(), nil
	case bool:
		return BoolN(t), nil
	case string:
		return StrN(t), nil
	case json.Number:
		return numFromText(string(t))
	case json.Delim:
		switch t {
		case '[':
			n := &Node{Kind: Seq, Items: []*Node{}}
			for dec.More() {
				x, err := readJSON(dec)
				if err != nil {
					return nil, err
				}
				n.Items = append(n.Items, x)
			}
			if _, err := dec.Token(); err != nil {
				return nil, err
			}
			return n, nil
		case '{':
			n := &Node{Kind: Map, Ordered: true}
			for dec.More() {
				kt, err := dec.Token()
				if err != nil {
					return nil, err
				}
				k, ok := kt.(string)
				if !ok {
					return nil, fmt.Errorf("non-string key %v", kt)
				}
				x, err := readJSON(dec)
				if err != nil {
					return nil, err
				}
				// keep duplicates visible: do not use Put
				n.Keys = append(n.Keys, k)
				n.Vals = append(n.Vals, x)
			}
			if _, err := dec.Token(); err != nil {
				return nil, err
			}
			return n, nil
		}
	}
	return nil, fmt.Errorf("unexpected token %v", tok)
}

func numFromText(s string) (*Node, error) {
	if i, err := strconv.ParseInt(s, 10, 64); err == nil {
		return IntN(i), nil
	}
	if u, err := strconv.ParseUint(s, 10, 64); err == nil {
		return UintN(u), nil
	}
	f, err := strconv.ParseFloat(s, 64)
	if err != nil {
		return nil, err
	}
	return FloatN(f), nil
}

// FromYAML reads YAML text (one document) preserving mapping order. Aliases
// are followed (each use becomes a copy); merge keys are NOT interpreted - the
// library's output never contains them, and the resolver in package doc owns
// merge semantics for inputs.
func FromYAML(b []byte) (*Node, error) {
	var doc yaml.Node
	if err := yaml.Unmarshal(b, &doc); err != nil {
		return nil, err
	}
	if doc.Kind == 0 {
		return NullN(), nil
	}
	return FromYAMLNode(&doc)
}

func FromYAMLNode(n *yaml.Node) (*Node, error) {
	return fromYAMLNode(n, 0)
}

func fromYAMLNode(n *yaml.Node, depth int) (*Node, error) {
	if depth > 5000 {
		return nil, fmt.Errorf("yaml too deep / cyclic")
	}
	switch n.Kind {
	case yaml.DocumentNode:
		if len(n.Content) != 1 {
			return NullN(), nil
		}
		return fromYAMLNode(n.Content[0], depth+1)
	case yaml.AliasNode:
		return fromYAMLNode(n.Alias, depth+1)
	case yaml.ScalarNode:
		var v any
		if err := n.Decode(&v); err != nil {
			return nil, err
		}
		return FromGo(v)
	case yaml.SequenceNode:
		out := &Node{Kind: Seq, Items: []*Node{}}
		for _, c := range n.Content {
			x, err := fromYAMLNode(c, depth+1)
			if err != nil {
				return nil, err
			}
			out.Items = append(out.Items, x)
		}
		return out, nil
	case yaml.MappingNode:
		out := &Node{Kind: Map, Ordered: true}
		for i := 0; i+1 < len(n.Content); i += 2 {
			kn := n.Content[i]
			if kn.Kind == yaml.AliasNode {
				kn = kn.Alias
			}
			if kn.Kind != yaml.ScalarNode {
				return nil, fmt.Errorf("non-scalar mapping key at line %d", kn.Line)
			}
			if kn.Tag == "!!merge" {
				return nil, fmt.Errorf("merge key in output at line %d", kn.Line)
			}
			var kv any
			if err := kn.Decode(&kv); err != nil {
				return nil, err
			}
			var k string
			switch t := kv.(type) {
			case string:
				k = t
			default:
				k = fmt.Sprint(t)
			}
			x, err := fromYAMLNode(n.Content[i+1], depth+1)
			if err != nil {
				return nil, err
			}
			out.Keys = append(out.Keys, k)
			out.Vals = append(out.Vals, x)
		}
		return out, nil
	}
	return nil, fmt.Errorf("unsupported yaml node kind %d", n.Kind)
}

// OrderedMapLike lets FromGo read order-preserving maps without importing the
// library: anything with this Range method (ordered.Map[string, V] has it for
// V=any and V=string via the adapters in package canon).
type RangerSA interface {
	Range(func(k string, v any) error) error
}
type RangerSS interface {
	Range(func(k string, v string) error) error
}

// FromGo converts plain Go values (as produced by yaml.v3 / encoding/json /
// the library's generic decoding) into a Node. Go maps become unordered maps
// with sorted keys.
func FromGo(v any) (*Node, error) {
	switch t := v.(type) {
	case nil:
		return NullN(), nil
	case *Node:
		return t, nil
	case bool:
		return BoolN(t), nil
	case int:
		return IntN(int64(t)), nil
	case int64:
		return IntN(t), nil
	case uint64:
		if t <= math.MaxInt64 {
			return IntN(int64(t)), nil
		}
		return UintN(t), nil
	case uint:
		return FromGo(uint64(t))
	case float64:
		return FloatN(t), nil
	case string:
		return StrN(t), nil
	case *string:
		if t == nil {
			return NullN(), nil
		}
		return StrN(*t), nil
	case time.Time:
		return TimeN(t), nil
	case json.Number:
		return numFromText(string(t))
	case []any:
		out := &Node{Kind: Seq, Items: []*Node{}}
		for _, x := range t {
			n, err := FromGo(x)
			if err != nil {
				return nil, err
			}
			out.Items = append(out.Items, n)
		}
		return out, nil
	case []string:
		out := &Node{Kind: Seq, Items: []*Node{}}
		for _, x := range t {
			out.Items = append(out.Items, StrN(x))
		}
		return out, nil
	case map[string]any:
		out := &Node{Kind: Map}
		keys := make([]string, 0, len(t))
		for k := range t {
			keys = append(keys, k)
		}
		sort.Strings(keys)
		for _, k := range keys {
			n, err := FromGo(t[k])
			if err != nil {
				return nil, err
			}
			out.Keys = append(out.Keys, k)
			out.Vals = append(out.Vals, n)
		}
		return out, nil
	case map[string]string:
		out := &Node{Kind: Map}
		keys := make([]string, 0, len(t))
		for k := range t {
			keys = append(keys, k)
		}
		sort.Strings(keys)
		for _, k := range keys {
			out.Keys = append(out.Keys, k)
			out.Vals = append(out.Vals, StrN(t[k]))
		}
		return out, nil
	case map[string][]string:
		out := &Node{Kind: Map}
		keys := make([]string, 0, len(t))
		for k := range t {
			keys = append(keys, k)
		}
		sort.Strings(keys)
		for _, k := range keys {
			n, _ := FromGo(t[k])
			out.Keys = append(out.Keys, k)
			out.Vals = append(out.Vals, n)
		}
		return out, nil
	case RangerSA:
		out := &Node{Kind: Map, Ordered: true}
		var ferr error
		t.Range(func(k string, v any) error {
			n, err := FromGo(v)
			if err != nil {
				ferr = err
				return err
			}
			out.Keys = append(out.Keys, k)
			out.Vals = append(out.Vals, n)
			return nil
		})
		return out, ferr
	case RangerSS:
		out := &Node{Kind: Map, Ordered: true}
		t.Range(func(k string, v string) error {
			out.Keys = append(out.Keys, k)
			out.Vals = append(out.Vals, StrN(v))
			return nil
		})
		return out, nil
	}
	return nil, fmt.Errorf("gt.FromGo: unsupported type %T", v)
}

// MustGo is FromGo that panics (generator-side use only).
func MustGo(v any) *Node {
	n, err := FromGo(v)
	if err != nil {
		panic(err)
	}
	return n
}

// ToJSON writes the node as JSON text (key order as stored). Times become
// RFC 3339 strings; non-finite floats are an error.
func ToJSON(n *Node) ([]byte, error) {
	var b bytes.Buffer
	if err := toJSON(&b, n); err != nil {
		return nil, err
	}
	return b.Bytes(), nil
}

func toJSON(b *bytes.Buffer, n *Node) error {
	switch n.Kind {
	case Null:
		b.WriteString("null")
	case Bool:
		fmt.Fprintf(b, "%v", n.B)
	case Int:
		fmt.Fprintf(b, "%d", n.I)
	case Uint:
		fmt.Fprintf(b, "%d", n.U)
	case Float:
		if math.IsNaN(n.F) || math.IsInf(n.F, 0) {
			return fmt.Errorf("non-finite float")
		}
		s := strconv.FormatFloat(n.F, 'g', -1, 64)
		if !strings.ContainsAny(s, ".eE") {
			s += ".0"
		}
		b.WriteString(s)
	case Str:
		x, _ := json.Marshal(n.S)
		b.Write(x)
	case Time:
		x, _ := json.Marshal(timeStr(n.T))
		b.Write(x)
	case Seq:
		b.WriteByte('[')
		for i, x := range n.Items {
			if i > 0 {
				b.WriteByte(',')
			}
			if err := toJSON(b, x); err != nil {
				return err
			}
		}
		b.WriteByte(']')
	case Map:
		b.WriteByte('{')
		for i, k := range n.Keys {
			if i > 0 {
				b.WriteByte(',')
			}
			x, _ := json.Marshal(k)
			b.Write(x)
			b.WriteByte(':')
			if err := toJSON(b, n.Vals[i]); err != nil {
				return err
			}
		}
		b.WriteByte('}')
	}
	return nil
}

// Walk calls f on every node (pre-order) with its path.
func Walk(n *Node, f func(path string, n *Node)) { walk("$", n, f) }

func walk(p string, n *Node, f func(string, *Node)) {
	if n == nil {
		return
	}
	f(p, n)
	switch n.Kind {
	case Seq:
		for i, x := range n.Items {
			walk(fmt.Sprintf("%s[%d]", p, i), x, f)
		}
	case Map:
		for i, k := range n.Keys {
			walk(p+"."+strconv.Quote(k), n.Vals[i], f)
		}
	}
}

// Count returns the number of nodes.
func Count(n *Node) int {
	c := 0
	Walk(n, func(string, *Node) { c++ })
	return c
}

// Unorder returns a deep copy in which no map is Ordered.
func Unorder(n *Node) *Node {
	c := n.Clone()
	Walk(c, func(_ string, x *Node) { x.Ordered = false })
	return c
}

// Any converts to plain Go values for JSON-able samples (maps become
// [][2]any-free objects via json.RawMessage so order is kept).
func (n *Node) MarshalJSON() ([]byte, error) {
	b, err := ToJSON(n)
	if err != nil {
		return json.Marshal(Show(n))
	}
	return b, nil
}
