// C15 - step kinds are chosen by the documented rule table.
package c15

import (
	"bytes"
	"encoding/json"
	"errors"
	"fmt"
	"sort"
	"strings"
	"testing"

	pipeline "github.com/buildkite/go-pipeline"
	"github.com/buildkite/go-pipeline/warning"
	"gopkg.in/yaml.v3"
	"pgregory.net/rapid"

	"verif/harness/internal/doc"
	"verif/harness/internal/ev"
	"verif/harness/internal/strs"
)

func TestMain(m *testing.M) { ev.Main(m) }

var kindKeys = doc.KindKeys // command, commands, plugins, wait, waiter, block, input, manual, trigger, group

// well-typed value for each kind-determining key, whatever kind wins
var keyValueJSON = map[string]string{
	"command": `"echo hi"`, "commands": `["a", "b"]`, "plugins": `[{"docker#v1.0.0": null}]`,
	"wait": `null`, "waiter": `null`, "block": `"Release?"`, "input": `"Who?"`, "manual": `"m"`,
	"trigger": `"deploy-pipeline"`, "group": `"Tests"`,
}

// further well-typed values per kind-determining key, null and empty ones among them
var keyValueVariants = map[string][]string{
	// (no list-valued `command`: next to `commands` it is a type error for the string field it falls
	// into, and the documented fallback to an unknown step applies - see DESIGN 2.5)
	"command": {`null`, `""`}, "commands": {`null`, `[]`, `"x"`, `""`}, "plugins": {`null`, `[]`, `{}`, `["docker#v1.0.0"]`},
	"wait": {`""`, `"x"`, `null`}, "waiter": {`""`, `null`}, "block": {`null`, `""`}, "input": {`null`, `""`}, "manual": {`null`, `""`},
	"trigger": {`null`, `""`}, "group": {`null`, `""`},
}

var typeValues = []string{"<absent>", "command", "script", "wait", "waiter", "block", "input", "manual", "trigger", "group", "", "foo", "Command", "wait ", "steps"}

type row struct {
	Mask int    `json:"mask"`
	Type string `json:"type"`
	JSON bool   `json:"json"`
	Rot  int    `json:"rot"`
}

func (r row) keys() []string {
	var ks []string
	for i, k := range kindKeys {
		if r.Mask&(1<<i) != 0 {
			ks = append(ks, k)
		}
	}
	if r.Type != "<absent>" {
		ks = append(ks, "type")
	}
	if len(ks) > 0 {
		rot := r.Rot % len(ks)
		ks = append(ks[rot:], ks[:rot]...)
	}
	return ks
}

func (r row) text() string {
	var b strings.Builder
	val := func(k string) string {
		if k == "type" {
			j, _ := json.Marshal(r.Type)
			return string(j)
		}
		return keyValueJSON[k]
	}
	ks := r.keys()
	if r.JSON {
		b.WriteString(`{"steps": [{`)
		for i, k := range ks {
			if i > 0 {
				b.WriteString(", ")
			}
			fmt.Fprintf(&b, "%q: %s", k, val(k))
		}
		b.WriteString("}]}")
		return b.String()
	}
	b.WriteString("steps:\n")
	if len(ks) == 0 {
		b.WriteString("  - {}\n")
	}
	for i, k := range ks {
		if i == 0 {
			b.WriteString("  - ")
		} else {
			b.WriteString("    ")
		}
		fmt.Fprintf(&b, "%s: %s\n", k, val(k))
	}
	return b.String()
}

// expected is the rule table transcribed from the statement.
func expected(has func(string) bool, typ string, typePresent bool) (kind string, sentinel error) {
	if typePresent {
		switch typ {
		case "command", "script":
			return doc.KCommand, nil
		case "wait", "waiter":
			return doc.KWait, nil
		case "block", "input", "manual":
			return doc.KInput, nil
		case "trigger":
			return doc.KTrigger, nil
		case "group":
			return doc.KGroup, nil
		}
		return doc.KUnknown, pipeline.ErrUnknownStepType
	}
	switch {
	case has("command") || has("commands") || has("plugins"):
		return doc.KCommand, nil
	case has("wait") || has("waiter"):
		return doc.KWait, nil
	case has("block") || has("input") || has("manual"):
		return doc.KInput, nil
	case has("trigger"):
		return doc.KTrigger, nil
	case has("group"):
		return doc.KGroup, nil
	}
	return doc.KUnknown, pipeline.ErrStepTypeInference
}

func kindOf(s pipeline.Step) string {
	switch s.(type) {
	case *pipeline.CommandStep:
		return doc.KCommand
	case *pipeline.WaitStep:
		return doc.KWait
	case *pipeline.InputStep:
		return doc.KInput
	case *pipeline.TriggerStep:
		return doc.KTrigger
	case *pipeline.GroupStep:
		return doc.KGroup
	case *pipeline.UnknownStep:
		return doc.KUnknown
	}
	return fmt.Sprintf("%T", s)
}

// checkOne parses text holding exactly one step and compares with the rule.
func checkOne(text string, wantKind string, wantSentinel error) error {
	p, err := pipeline.Parse(strings.NewReader(text))
	if err != nil && !warning.Is(err) {
		return fmt.Errorf("Parse hard-failed: %v", err)
	}
	if p == nil || len(p.Steps) != 1 {
		return fmt.Errorf("Parse returned %d steps, want 1 (err %v)", len(p.Steps), err)
	}
	got := kindOf(p.Steps[0])
	if got != wantKind {
		return fmt.Errorf("step kind = %s, rule table says %s (err %v)", got, wantKind, err)
	}
	if wantSentinel == nil {
		if err != nil {
			return fmt.Errorf("known kind %s but Parse returned warning: %v", wantKind, err)
		}
		return nil
	}
	if err == nil {
		return fmt.Errorf("unknown step but no warning")
	}
	if !errors.Is(err, wantSentinel) {
		return fmt.Errorf("warning does not identify %v: %v", wantSentinel, err)
	}
	other := pipeline.ErrUnknownStepType
	if wantSentinel == pipeline.ErrUnknownStepType {
		other = pipeline.ErrStepTypeInference
	}
	if errors.Is(err, other) {
		return fmt.Errorf("warning identifies the wrong cause (%v as well as / instead of %v): %v", other, wantSentinel, err)
	}
	return nil
}

var recTable = ev.New("TestExhaustiveRuleTable", "all 2^10 subsets of the ten kind-determining keys x 15 `type` values (absent, the ten known names, \"\", foo, Command, \"wait \", steps) x {YAML, JSON} with well-typed values for every kind; expected kind and sentinel from a table transcribed from the statement; non-trivial = keys from >= 2 families, or a `type` that contradicts the keys; distinct by construction")

func family(k string) int {
	switch k {
	case "command", "commands", "plugins":
		return 0
	case "wait", "waiter":
		return 1
	case "block", "input", "manual":
		return 2
	case "trigger":
		return 3
	}
	return 4
}

func TestExhaustiveRuleTable(t *testing.T) {
	var rr row
	run := func(r row) {
		has := func(k string) bool {
			for i, kk := range kindKeys {
				if kk == k {
					return r.Mask&(1<<i) != 0
				}
			}
			return false
		}
		wk, ws := expected(has, r.Type, r.Type != "<absent>")
		if err := checkOne(r.text(), wk, ws); err != nil {
			ev.FailCase(t, r, "%v\ndocument:\n%s", err, r.text())
		}
		fams := map[int]bool{}
		for i, k := range kindKeys {
			if r.Mask&(1<<i) != 0 {
				fams[family(k)] = true
			}
		}
		inferred, _ := expected(has, "", false)
		nt := len(fams) >= 2 || (r.Type != "<absent>" && wk != inferred)
		recTable.Case(ev.Hash(r), nt, "kind="+wk)
		recTable.MaybeSample(nt, func() any { return map[string]any{"document": r.text(), "kind": wk} })
	}
	if ev.ReplayCase(t.Name(), &rr) {
		run(rr)
		return
	}
	ev.SkipIfReplayingOther(t)
	n := 0
	for mask := 0; mask < 1<<len(kindKeys); mask++ {
		for _, typ := range typeValues {
			for _, js := range []bool{false, true} {
				n++
				if n%ev.Shards() != ev.Shard() {
					continue
				}
				run(row{Mask: mask, Type: typ, JSON: js, Rot: n})
			}
		}
	}
	recTable.Exhaustive()
}

var recExtra = ev.New("TestPropExtraKeysDoNotChangeKind", "random rows of the same table with 0-10 extra keys (names outside every kind-determining key, arbitrary nested values incl. anchors/aliases) in random key order and style, one kind-determining key in three carrying a null or empty value instead of the usual one: decision unchanged (the rule looks at the presence of keys); non-trivial = >= 3 extra keys and keys from >= 2 families or a contradicting type; distinct by document text")

func TestPropExtraKeysDoNotChangeKind(t *testing.T) {
	ev.Check(t, 3000, 200000, func(t *rapid.T) {
		mask := rapid.IntRange(0, 1<<len(kindKeys)-1).Draw(t, "mask")
		if rapid.Bool().Draw(t, "sparse") {
			mask &= rapid.IntRange(0, 1<<len(kindKeys)-1).Draw(t, "mask2")
		}
		typ := rapid.SampledFrom(typeValues).Draw(t, "type")
		if rapid.IntRange(0, 11).Draw(t, "longtype") == 0 {
			typ = longName().Draw(t, "longtypename")
		}
		var kv []*yaml.Node
		has := map[string]bool{}
		for i, k := range kindKeys {
			if mask&(1<<i) != 0 {
				has[k] = true
				var v yaml.Node
				valText := keyValueJSON[k]
				if rapid.IntRange(0, 2).Draw(t, "variant") == 0 {
					// the rule is about the PRESENCE of a key: null and empty values count like any other
					valText = rapid.SampledFrom(keyValueVariants[k]).Draw(t, "valvariant")
					recExtra.Class("kind-key-with-null-or-empty-value")
				}
				if err := yaml.Unmarshal([]byte(valText), &v); err != nil {
					t.Fatal(err)
				}
				val := v.Content[0]
				if val.Kind == yaml.ScalarNode && val.Tag == "!!null" {
					val = doc.Plain("null")
				}
				kv = append(kv, doc.StrNode(k), val)
			}
		}
		if typ != "<absent>" {
			kv = append(kv, doc.StrNode("type"), doc.StrNode(typ))
		}
		nExtra := rapid.IntRange(0, 10).Draw(t, "nextra")
		used := map[string]bool{}
		for k := range has {
			used[k] = true
		}
		for _, k := range append(append([]string{}, kindKeys...), "type", "steps", "key", "id", "identifier", "label", "name", "env", "matrix", "cache", "signature") {
			used[k] = true
		}
		extras := 0
		// `steps` is not one of the ten kind-determining keys either: with a well-typed value (a list of
		// steps, empty or not, or null) it is the nested list of a group and an extra key of anything else
		if rapid.IntRange(0, 3).Draw(t, "stepskey") == 0 {
			var v yaml.Node
			if err := yaml.Unmarshal([]byte(rapid.SampledFrom([]string{`[]`, `["wait"]`, `null`, `[{"command": "x"}]`, `[{"wait": null}, "block"]`}).Draw(t, "stepsval")), &v); err != nil {
				t.Fatal(err)
			}
			sv := v.Content[0]
			if sv.Kind == yaml.ScalarNode && sv.Tag == "!!null" {
				sv = doc.Plain("null")
			}
			kv = append(kv, doc.StrNode("steps"), sv)
			extras++
			recExtra.Class("extra-key-named-steps")
		}
		if rapid.IntRange(0, 5).Draw(t, "mergelookalike") == 0 {
			// an extra key that is the STRING "<<" (quoted; every JSON key is): an ordinary key, whose
			// value - here a mapping, or a list of mappings, holding keys and a type of other kinds - is data
			var v yaml.Node
			if err := yaml.Unmarshal([]byte(rapid.SampledFrom([]string{`{"type": "wait"}`, `{"type": "block"}`, `{"command": "y"}`, `{"wait": null}`, `{"plugins": []}`, `{"trigger": "t", "type": "trigger"}`, `{"group": "g", "steps": []}`, `[{"type": "group"}, {"command": "z"}]`, `"scalar"`, `null`, `{"type": "command", "block": "b"}`}).Draw(t, "mergelookalikeval")), &v); err != nil {
				t.Fatal(err)
			}
			mv := v.Content[0]
			if mv.Kind == yaml.ScalarNode && mv.Tag == "!!null" {
				mv = doc.Plain("null")
			}
			kv = append(kv, doc.Scalar("!!str", "<<", yaml.DoubleQuotedStyle), mv)
			used["<<"] = true
			extras++
			recExtra.Class("extra-key-that-is-the-string-<<")
		}
		for i := 0; i < nExtra; i++ {
			k := rapid.OneOf(rapid.SampledFrom([]string{"agents", "artifact_paths", "retry", "if", "depends_on", "soft_fail", "parallelism", "Command", "WAIT", "types", "group ", "commandz"}), strs.S()).Draw(t, "extrakey")
			if used[k] {
				continue
			}
			used[k] = true
			extras++
			// one generator per value: the pairs are shuffled afterwards, so an alias must never
			// point into another pair (anchor names may repeat; an alias binds to the latest one before it)
			vg := doc.NewG(t, doc.Config{Anchors: true, Timestamps: true, BigNums: true, Floats: true, EmptyKey: true, MergeKeyStr: true})
			kv = append(kv, doc.StrNode(k), vg.Any(1))
		}
		// random key order (pairs)
		idx := rapid.Permutation(seq(len(kv)/2)).Draw(t, "order")
		var content []*yaml.Node
		for _, i := range idx {
			content = append(content, kv[2*i], kv[2*i+1])
		}
		step := doc.MapNode(rapid.Bool().Draw(t, "flow"), content...)
		root := doc.MapNode(false, doc.StrNode("steps"), doc.SeqNode(false, step))
		if rapid.IntRange(0, 3).Draw(t, "layered") == 0 {
			// the same keys arriving through a chain of merges: the step merges a template that merges
			// defaults and then overrides what it inherits - `type` first of all. The rule sees the merged
			// content: an explicit key beats the same key from a merge at every level.
			defaults := doc.MapNode(false, doc.StrNode("inherited-only"), doc.StrNode("d"))
			if typ != "<absent>" {
				other := "script"
				if typ == "command" || typ == "script" {
					other = "block"
				}
				defaults.Content = append(defaults.Content, doc.StrNode("type"), doc.StrNode(other))
			}
			defaults.Anchor = "defaults"
			cut := rapid.IntRange(0, len(content)/2).Draw(t, "cut") * 2
			tpl := doc.MapNode(false, doc.MergeKey(), doc.AliasNode(defaults))
			// the template's own keys are written AFTER its merge line
			for i := 0; i < len(content); i += 2 {
				if content[i].Value == "type" || i < cut {
					tpl.Content = append(tpl.Content, content[i], content[i+1])
				}
			}
			tpl.Anchor = "template"
			st2 := doc.MapNode(false, doc.MergeKey(), doc.AliasNode(tpl))
			for i := 0; i < len(content); i += 2 {
				if !(content[i].Value == "type" || i < cut) {
					st2.Content = append(st2.Content, content[i], content[i+1])
				}
			}
			root = doc.MapNode(false, doc.StrNode("x-defs"), doc.SeqNode(false, defaults, tpl), doc.StrNode("steps"), doc.SeqNode(false, st2))
			extras++
			recExtra.Class("keys-arrive-through-a-chain-of-merges")
		}
		plainMergeLookalike := false
		for i := 0; i < len(content); i += 2 {
			// (written by yaml.Marshal directly below, a string key `<<` would come out plain and read back
			// as a merge - a quirk of the emitter that doc.Render works around; such rows keep to Render)
			if content[i].Value == "<<" && content[i].Style == 0 {
				plainMergeLookalike = true
			}
		}
		if !plainMergeLookalike && rapid.IntRange(0, 7).Draw(t, "twinkeys") == 0 {
			// two extra keys that are different YAML keys and the same text: a number, a boolean or null
			// written plain, and the string that spells it (quoted). Which of the two values survives is not
			// this property's business; the kind of the step is.
			tw := rapid.SampledFrom([]string{"1", "true", "0x10", "1.5", "007", "no"}).Draw(t, "twin")
			pairs := []*yaml.Node{doc.Plain(tw), doc.StrNode("plain"), doc.Scalar("!!str", tw, yaml.DoubleQuotedStyle), doc.StrNode("quoted")}
			if rapid.Bool().Draw(t, "quotedfirst") {
				pairs = []*yaml.Node{pairs[2], pairs[3], pairs[0], pairs[1]}
			}
			flat := doc.MapNode(false, append(append([]*yaml.Node{}, content...), pairs...)...)
			text, merr := yaml.Marshal(doc.DocNode(doc.MapNode(false, doc.StrNode("steps"), doc.SeqNode(false, flat))))
			if merr != nil {
				t.Fatalf("harness: %v", merr)
			}
			// (this path writes the text itself; what doc.Render's self-check does for the other rows is done
			// here in small: the text must read back as one step mapping holding every pair that was written -
			// the YAML library's emitter mangles a few strings, e.g. block scalars that begin with white space)
			var back yaml.Node
			readable := yaml.Unmarshal(text, &back) == nil && len(back.Content) == 1 && len(back.Content[0].Content) == 2 &&
				back.Content[0].Content[1].Kind == yaml.SequenceNode && len(back.Content[0].Content[1].Content) == 1 &&
				len(back.Content[0].Content[1].Content[0].Content) == len(flat.Content)
			if !readable {
				recExtra.Excluded("render-fault (twin-key row written directly)")
			} else {
				wk, ws := expected(func(k string) bool { return has[k] }, typ, typ != "<absent>")
				if err := checkOne(string(text), wk, ws); err != nil {
					t.Fatalf("%v\ndocument:\n%s", err, text)
				}
				recExtra.Class("extra-keys-that-differ-only-in-being-quoted")
			}
		}
		d, err := doc.Render(root, 2, 20000)
		if err != nil {
			e := err.Error()
			if len(e) > 60 {
				e = e[:60]
			}
			recExtra.Excluded("render-fault-or-outside: " + e)
			return
		}
		wk, ws := expected(func(k string) bool { return has[k] }, typ, typ != "<absent>")
		if err := checkOne(string(d.YAML), wk, ws); err != nil {
			t.Fatalf("%v\ndocument:\n%s", err, d.YAML)
		}
		fams := map[int]bool{}
		for k := range has {
			fams[family(k)] = true
		}
		inferred, _ := expected(func(k string) bool { return has[k] }, "", false)
		nt := extras >= 3 && (len(fams) >= 2 || (typ != "<absent>" && wk != inferred))
		recExtra.Case(ev.HashBytes(d.YAML), nt, "kind="+wk, fmt.Sprintf("extras=%d", min(extras, 5)))
		recExtra.MaybeSample(nt, func() any { return string(d.YAML[:min(len(d.YAML), 800)]) })
	})
}

func seq(n int) []int {
	s := make([]int, n)
	for i := range s {
		s[i] = i
	}
	return s
}

var recScalar = ev.New("TestPropScalarSteps", "scalar step strings: the five recognised words (-> wait / input) and arbitrary strings of domain S incl. near misses (-> unknown step + ErrUnknownStepType, contents kept verbatim); non-trivial = near-miss of a recognised word (case, white space, prefix) ; distinct by string")

// longName: a long name of 1 to 4 byte letters - 10 to 400 of them, so that byte length and character
// count straddle whatever limit a message formatter or a buffer might have in mind
func longName() *rapid.Generator[string] {
	return rapid.Custom(func(t *rapid.T) string {
		unit := rapid.SampledFrom([]string{"x", "é", "步", "😀", "ß", "日本", "aé", "wait", "Ω-"}).Draw(t, "unit")
		n := rapid.IntRange(10, 400).Draw(t, "units")
		if rapid.Bool().Draw(t, "nearlimit") {
			n = rapid.SampledFrom([]int{32, 43, 64, 85, 100, 127, 128, 129, 255, 256, 257}).Draw(t, "limit") / len([]rune(unit))
			n += rapid.IntRange(-1, 1).Draw(t, "off")
			if n < 1 {
				n = 1
			}
		}
		return strings.Repeat(unit, n)
	})
}

func TestPropScalarSteps(t *testing.T) {
	known := map[string]string{"wait": doc.KWait, "waiter": doc.KWait, "block": doc.KInput, "input": doc.KInput, "manual": doc.KInput}
	ev.Check(t, 3000, 200000, func(t *rapid.T) {
		s := rapid.OneOf(
			rapid.SampledFrom([]string{"wait", "waiter", "block", "input", "manual"}),
			rapid.SampledFrom([]string{"Wait", "wait ", " wait", "waiters", "blocks", "inputs", "manual\n", "WAIT", "trigger", "command", "group", "wai", "", "~", "null", "true", "1"}),
			strs.S(),
			longName(),
		).Draw(t, "scalar")
		root := doc.MapNode(false, doc.StrNode("steps"), doc.SeqNode(false, doc.StrNode(s)))
		d, err := doc.Render(root, 2, 4000)
		if err != nil {
			recScalar.Excluded("render-fault")
			return
		}
		wk, ok := known[s]
		var ws error
		if !ok {
			wk, ws = doc.KUnknown, pipeline.ErrUnknownStepType
		}
		if err := checkOne(string(d.YAML), wk, ws); err != nil {
			t.Fatalf("scalar step %q: %v", s, err)
		}
		p, _ := pipeline.Parse(bytes.NewReader(d.YAML))
		if !ok {
			if u := p.Steps[0].(*pipeline.UnknownStep); u.Contents != any(s) {
				t.Fatalf("unknown scalar step %q not kept verbatim: %#v", s, u.Contents)
			}
		}
		low := strings.ToLower(strings.TrimSpace(s))
		_, near := known[low]
		nt := !ok && (near || strings.HasPrefix(low, "wait") || strings.HasPrefix(low, "block") || strings.HasPrefix(low, "input"))
		recScalar.Case(ev.HashStr(s), nt, "kind="+wk)
		recScalar.MaybeSample(nt, func() any { return s })
	})
}

// ---------------------------------------------------------------------------
// Lists of steps: the rule is applied to every element of a list, however long, and every unknown
// element comes with its own warning

// countSentinels walks the error tree and counts the occurrences of the two sentinels.
func countSentinels(err error) (unknownType, inference int) {
	var visit func(error)
	visit = func(e error) {
		switch {
		case e == nil:
			return
		case e == pipeline.ErrUnknownStepType:
			unknownType++
			return
		case e == pipeline.ErrStepTypeInference:
			inference++
			return
		}
		switch u := e.(type) {
		case interface{ Unwrap() []error }:
			for _, c := range u.Unwrap() {
				visit(c)
			}
		case interface{ Unwrap() error }:
			visit(u.Unwrap())
		}
	}
	visit(err)
	return
}

var recLists = ev.New("TestPropStepLists", "pipelines whose step list holds 1-150 elements (rows of the rule table, scalar steps, group steps holding further rows and further groups, to depth 3) as JSON-flow or block YAML: every element's kind equals the rule table's in its position, and the returned warning tree holds exactly one unknown-type sentinel per element the table sends to 'unknown type' and one inference sentinel per element it sends to 'failed inference' (none when every element is known) - no element's warning is dropped or merged however many precede it; non-trivial = >= 33 unknown elements in one list, or unknown elements inside a group; distinct by document text")

func TestPropStepLists(t *testing.T) {
	knownScalar := map[string]string{"wait": doc.KWait, "waiter": doc.KWait, "block": doc.KInput, "input": doc.KInput, "manual": doc.KInput}
	ev.Check(t, 400, 8000, func(t *rapid.T) {
		type elem struct {
			json  string
			kind  string
			cause error
			sub   []elem
		}
		var nUnknownType, nInference, inGroup, maxUnknownInList, nestedGroups int
		var genList func(depth int, n int, unknownBias int) []elem
		genList = func(depth, n, unknownBias int) []elem {
			var out []elem
			unk := 0
			for i := 0; i < n; i++ {
				switch c := rapid.IntRange(0, 9).Draw(t, "elem"); {
				case c == 0:
					s := rapid.SampledFrom([]string{"wait", "waiter", "block", "input", "manual", "Wait", "wait ", "waiters", "trigger", "command", "group", ""}).Draw(t, "scalar")
					j, _ := json.Marshal(s)
					e := elem{json: string(j)}
					if k, ok := knownScalar[s]; ok {
						e.kind = k
					} else {
						e.kind, e.cause = doc.KUnknown, pipeline.ErrUnknownStepType
					}
					out = append(out, e)
				case c == 1 && depth < 3:
					// a group; groups nest (a group may hold groups, to depth 3)
					sub := genList(depth+1, rapid.IntRange(0, 6-2*depth).Draw(t, "ngroup"), unknownBias)
					if depth > 0 {
						nestedGroups++
					}
					parts := make([]string, len(sub))
					for i, s := range sub {
						parts[i] = s.json
					}
					out = append(out, elem{json: `{"group": "g", "steps": [` + strings.Join(parts, ", ") + `]}`, kind: doc.KGroup, sub: sub})
				default:
					r := row{Mask: rapid.IntRange(0, 1023).Draw(t, "mask"), Type: rapid.SampledFrom(typeValues).Draw(t, "type"), JSON: true, Rot: rapid.IntRange(0, 10).Draw(t, "rot")}
					if rapid.IntRange(0, 9).Draw(t, "mkunknown") < unknownBias {
						if rapid.Bool().Draw(t, "byType") {
							r.Type = rapid.SampledFrom([]string{"", "foo", "Command", "wait ", "steps"}).Draw(t, "badtype")
						} else {
							r.Mask, r.Type = 0, "<absent>"
						}
					}
					has := func(k string) bool {
						for i, kk := range kindKeys {
							if kk == k {
								return r.Mask&(1<<i) != 0
							}
						}
						return false
					}
					kind, cause := expected(has, r.Type, r.Type != "<absent>")
					txt := r.text() // {"steps": [{...}]}
					txt = strings.TrimSuffix(strings.TrimPrefix(txt, `{"steps": [`), "]}")
					out = append(out, elem{json: txt, kind: kind, cause: cause})
				}
				last := out[len(out)-1]
				if last.cause != nil {
					unk++
					if depth > 0 {
						inGroup++
					}
					if last.cause == pipeline.ErrUnknownStepType {
						nUnknownType++
					} else {
						nInference++
					}
				}
			}
			maxUnknownInList = max(maxUnknownInList, unk)
			return out
		}
		n := rapid.IntRange(1, 8).Draw(t, "n")
		bias := rapid.IntRange(0, 3).Draw(t, "bias")
		if rapid.IntRange(0, 3).Draw(t, "long") == 0 {
			n = rapid.IntRange(33, 150).Draw(t, "nlong")
			bias = rapid.SampledFrom([]int{1, 5, 9, 10}).Draw(t, "longbias")
		}
		list := genList(0, n, bias)
		var b strings.Builder
		block := rapid.Bool().Draw(t, "block")
		if block {
			b.WriteString("steps:\n")
			for _, e := range list {
				b.WriteString("  - " + e.json + "\n")
			}
		} else {
			parts := make([]string, len(list))
			for i, e := range list {
				parts[i] = e.json
			}
			b.WriteString(`{"steps": [` + strings.Join(parts, ", ") + `]}`)
		}
		text := b.String()
		p, err := pipeline.Parse(strings.NewReader(text))
		if err != nil && !warning.Is(err) {
			t.Fatalf("Parse hard-failed: %v\n%s", err, text)
		}
		var cmp func(path string, got pipeline.Steps, want []elem)
		cmp = func(path string, got pipeline.Steps, want []elem) {
			if len(got) != len(want) {
				t.Fatalf("%s: %d steps parsed, %d written\n%s", path, len(got), len(want), text)
			}
			for i, e := range want {
				if k := kindOf(got[i]); k != e.kind {
					t.Fatalf("%s[%d] (%s): kind %s, rule table says %s\n%s", path, i, e.json, k, e.kind, text)
				}
				if e.sub != nil {
					cmp(fmt.Sprintf("%s[%d].steps", path, i), got[i].(*pipeline.GroupStep).Steps, e.sub)
				}
			}
		}
		cmp("steps", p.Steps, list)
		gotUT, gotInf := countSentinels(err)
		if gotUT != nUnknownType || gotInf != nInference {
			t.Fatalf("the warning identifies %d unknown-type and %d failed-inference steps; the list holds %d and %d such steps (every unknown step comes with its warning)\nwarning: %.1500v\n%s", gotUT, gotInf, nUnknownType, nInference, err, text)
		}
		if nUnknownType+nInference == 0 && err != nil {
			t.Fatalf("every step is of a known kind but Parse warns: %v\n%s", err, text)
		}
		if nestedGroups > 0 {
			recLists.Class("group-inside-group")
		}
		nt := maxUnknownInList >= 33 || inGroup > 0 || nestedGroups > 0
		cls := "unknown-in-one-list<33"
		if maxUnknownInList >= 33 {
			cls = "unknown-in-one-list>=33"
		}
		recLists.Case(ev.HashStr(text), nt, cls, fmt.Sprintf("block=%v", block))
		recLists.MaybeSample(nt, func() any {
			return map[string]any{"steps": len(list), "unknown_type": nUnknownType, "failed_inference": nInference, "unknown_in_groups": inGroup, "head": text[:min(len(text), 300)]}
		})
	})
}

// ---------------------------------------------------------------------------
// Ill-typed contents. The rule picks the kind from `type` / the keys present; contents that do not
// fit that kind make the step an unknown step (with a warning) - they never make it a step of ANOTHER
// known kind, however many other families' keys are present.

var illTyped = [][2]string{
	{"env", `"nope"`}, {"env", `[1, 2]`}, {"key", `["a", "b"]`}, {"label", `{"a": "b"}`}, {"matrix", `5`}, {"matrix", `"x"`},
	{"cache", `5`}, {"signature", `7`}, {"command", `{"a": "b"}`}, {"commands", `[["a"]]`}, {"commands", `{"a": 1}`},
	{"plugins", `42`}, {"plugins", `"docker"`}, {"plugins", `[42]`}, {"plugins", `[["x"]]`}, {"steps", `5`}, {"steps", `"wait"`}, {"steps", `{"a": 1}`},
	{"name", `[1]`}, {"id", `{"x": 1}`}, {"identifier", `[[]]`},
}

var recIll = ev.New("TestPropIllTypedContentsNeverChangeKind", "random rows of the rule table (any subset of the ten kind-determining keys, any `type` value) in which one or two keys carry a value of the wrong shape for the kind the rule picks (env: a string, key: a list, matrix: 5, plugins: 42, commands: a list of lists, steps: 5, ...), keys in random order, YAML and JSON: the step is either the kind the rule says (when the wrong-shaped key means nothing to that kind) or an unknown step reported by a warning - never another known kind, never silently; non-trivial = keys of >= 2 families and the outcome is an unknown step; distinct by document text")

func TestPropIllTypedContentsNeverChangeKind(t *testing.T) {
	ev.Check(t, 3000, 150000, func(t *rapid.T) {
		mask := rapid.IntRange(0, 1<<len(kindKeys)-1).Draw(t, "mask")
		if rapid.Bool().Draw(t, "sparse") {
			mask &= rapid.IntRange(0, 1<<len(kindKeys)-1).Draw(t, "mask2")
		}
		typ := rapid.SampledFrom(typeValues).Draw(t, "type")
		vals := map[string]string{}
		has := map[string]bool{}
		for i, k := range kindKeys {
			if mask&(1<<i) != 0 {
				has[k] = true
				vals[k] = keyValueJSON[k]
			}
		}
		for i, c := 0, rapid.IntRange(1, 2).Draw(t, "nill"); i < c; i++ {
			ill := rapid.SampledFrom(illTyped).Draw(t, "ill")
			vals[ill[0]] = ill[1]
			for _, k := range kindKeys {
				if k == ill[0] {
					has[k] = true
				}
			}
		}
		if typ != "<absent>" {
			b, _ := json.Marshal(typ)
			vals["type"] = string(b)
		}
		var ks []string
		for k := range vals {
			ks = append(ks, k)
		}
		sort.Strings(ks)
		ks = rapid.Permutation(ks).Draw(t, "order")
		var b strings.Builder
		b.WriteString(`{"steps": [{`)
		for i, k := range ks {
			if i > 0 {
				b.WriteString(", ")
			}
			kb, _ := json.Marshal(k)
			b.Write(kb)
			b.WriteString(": " + vals[k])
		}
		b.WriteString(`}]}`)
		text := b.String()
		if rapid.Bool().Draw(t, "asyaml") {
			var n yaml.Node
			if err := yaml.Unmarshal([]byte(text), &n); err != nil {
				t.Fatalf("harness: %v", err)
			}
			yb, err := yaml.Marshal(&n)
			if err != nil {
				t.Fatalf("harness: %v", err)
			}
			text = string(yb)
		}
		wk, _ := expected(func(k string) bool { return has[k] }, typ, typ != "<absent>")
		p, err := pipeline.Parse(strings.NewReader(text))
		if err != nil && !warning.Is(err) {
			recIll.Excluded("hard error (permitted for ill-typed documents)")
			return
		}
		if p == nil || len(p.Steps) != 1 {
			t.Fatalf("Parse returned %d steps, want 1 (err %v)\n%s", len(p.Steps), err, text)
		}
		got := kindOf(p.Steps[0])
		switch {
		case got == wk:
			if wk != "unknown" && err != nil {
				t.Fatalf("step kept its kind %s but Parse warns: %v\n%s", wk, err, text)
			}
		case got == "unknown":
			if err == nil {
				t.Fatalf("the step fell back to an unknown step but no warning was returned\n%s", text)
			}
		default:
			t.Fatalf("contents that do not fit the kind the rule picks (%s) turned the step into a %s (err %v)\n%s", wk, got, err, text)
		}
		fams := map[int]bool{}
		for k := range has {
			fams[family(k)] = true
		}
		nt := len(fams) >= 2 && got == "unknown"
		recIll.Case(ev.HashStr(text), nt, "outcome="+got, "rule="+wk)
		recIll.MaybeSample(nt, func() any { return text })
	})
}

// ---------------------------------------------------------------------------
// Steps written as aliases. A step list may hold `*name` entries; an anchor name may be defined again
// later in the document, and an alias means the latest definition before it. The rule is applied to
// the mapping the alias stands for - not to whatever was decoded for that name earlier.

var recAlias = ev.New("TestPropAliasedSteps", "step lists of 3-14 entries where an entry is a fresh row of the rule table (anchored under one of two names, so names get re-defined) or an alias of the latest definition of a name; expected kind per entry from the row the alias points to; exactly one sentinel of the right cause per unknown entry; non-trivial = an alias follows a re-definition of its name; distinct by document text")

func TestPropAliasedSteps(t *testing.T) {
	ev.Check(t, 1500, 60000, func(t *rapid.T) {
		type def struct {
			node *yaml.Node
			kind string
			sent error
		}
		current := map[string]*def{}
		defined := map[string]int{}
		var items []*yaml.Node
		var kinds []string
		var sents []error
		nt := false
		n := rapid.IntRange(3, 14).Draw(t, "n")
		for i := 0; i < n; i++ {
			name := rapid.SampledFrom([]string{"gate", "job"}).Draw(t, "anchor")
			if d := current[name]; d != nil && rapid.IntRange(0, 2).Draw(t, "alias") > 0 {
				items = append(items, doc.AliasNode(d.node))
				kinds = append(kinds, d.kind)
				sents = append(sents, d.sent)
				if defined[name] > 1 {
					nt = true
				}
				continue
			}
			mask := rapid.IntRange(0, 1<<len(kindKeys)-1).Draw(t, "mask") & rapid.IntRange(0, 1<<len(kindKeys)-1).Draw(t, "mask2")
			typ := rapid.SampledFrom(typeValues).Draw(t, "type")
			has := map[string]bool{}
			var kv []*yaml.Node
			for j, k := range kindKeys {
				if mask&(1<<j) != 0 {
					has[k] = true
					var v yaml.Node
					if err := yaml.Unmarshal([]byte(keyValueJSON[k]), &v); err != nil {
						t.Fatal(err)
					}
					val := v.Content[0]
					if val.Kind == yaml.ScalarNode && val.Tag == "!!null" {
						val = doc.Plain("null")
					}
					kv = append(kv, doc.StrNode(k), val)
				}
			}
			if typ != "<absent>" {
				kv = append(kv, doc.StrNode("type"), doc.StrNode(typ))
			}
			kv = append(kv, doc.StrNode("label"), doc.StrNode(fmt.Sprintf("entry %d", i)))
			node := doc.MapNode(false, kv...)
			node.Anchor = name
			k, s := expected(func(k string) bool { return has[k] }, typ, typ != "<absent>")
			current[name] = &def{node: node, kind: k, sent: s}
			defined[name]++
			items = append(items, node)
			kinds = append(kinds, k)
			sents = append(sents, s)
		}
		root := doc.MapNode(false, doc.StrNode("steps"), doc.SeqNode(false, items...))
		text, err := yaml.Marshal(doc.DocNode(root))
		if err != nil {
			t.Fatalf("harness: %v", err)
		}
		p, perr := pipeline.Parse(bytes.NewReader(text))
		if perr != nil && !warning.Is(perr) {
			t.Fatalf("Parse hard-failed: %v\n%s", perr, text)
		}
		if p == nil || len(p.Steps) != len(kinds) {
			t.Fatalf("Parse returned %d steps, want %d (err %v)\n%s", len(p.Steps), len(kinds), perr, text)
		}
		wantUT, wantInf := 0, 0
		for i, s := range p.Steps {
			if got := kindOf(s); got != kinds[i] {
				t.Fatalf("entry %d is a %s step, the rule applied to the mapping it stands for says %s\n%s", i, got, kinds[i], text)
			}
			switch sents[i] {
			case pipeline.ErrUnknownStepType:
				wantUT++
			case pipeline.ErrStepTypeInference:
				wantInf++
			}
		}
		ut, inf := countSentinels(perr)
		if ut != wantUT || inf != wantInf {
			t.Fatalf("the warning names %d unknown types and %d failed inferences, the entries give %d and %d\n%v\n%s", ut, inf, wantUT, wantInf, perr, text)
		}
		recAlias.Case(ev.HashBytes(text), nt, fmt.Sprintf("entries>=%d", n/5*5))
		recAlias.MaybeSample(nt, func() any { return string(text[:min(len(text), 900)]) })
	})
}
