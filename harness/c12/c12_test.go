// C12 - matrix interpolation replaces exactly the permutation's tokens, only in scope.
package c12

import (
	"encoding/json"
	"fmt"
	"sort"
	"strings"
	"testing"

	pipeline "github.com/buildkite/go-pipeline"
	"github.com/buildkite/go-pipeline/ordered"
	"pgregory.net/rapid"

	"verif/harness/internal/canon"
	"verif/harness/internal/ev"
	"verif/harness/internal/gt"
	"verif/harness/internal/strs"
)

func TestMain(m *testing.M) { ev.Main(m) }

// ---------------------------------------------------------------------------
// reference tokenizer: a hand-written single-pass scanner (no regexp).
// Token grammar (from the documentation of matrix tokens): "{{" ws* "matrix"
// [ "." name ] ws* "}}" with ws in {space, \t, \n, \f, \r} and name one or
// more of [A-Za-z0-9_.-].

func isWS(c byte) bool { return c == ' ' || c == '\t' || c == '\n' || c == '\f' || c == '\r' }
func isName(c byte) bool {
	return c >= 'a' && c <= 'z' || c >= 'A' && c <= 'Z' || c >= '0' && c <= '9' || c == '_' || c == '-' || c == '.'
}

// matchToken tries to match a token at s[i:]; returns the dimension ("" for the
// anonymous one) and the end index.
func matchToken(s string, i int) (dim string, end int, ok bool) {
	if !strings.HasPrefix(s[i:], "{{") {
		return "", 0, false
	}
	j := i + 2
	for j < len(s) && isWS(s[j]) {
		j++
	}
	if !strings.HasPrefix(s[j:], "matrix") {
		return "", 0, false
	}
	j += len("matrix")
	if j < len(s) && s[j] == '.' {
		k := j + 1
		for k < len(s) && isName(s[k]) {
			k++
		}
		if k > j+1 {
			dim = s[j+1 : k]
			j = k
		}
		// a lone "." is not part of a token: fall through, the "}}" test below fails
	}
	for j < len(s) && isWS(s[j]) {
		j++
	}
	if !strings.HasPrefix(s[j:], "}}") {
		return "", 0, false
	}
	return dim, j + 2, true
}

// refReplace applies the permutation in one pass; unknown lists the dimensions
// named by tokens that the permutation does not have.
func refReplace(s string, perm map[string]string) (out string, unknown []string, ntokens int) {
	var b strings.Builder
	for i := 0; i < len(s); {
		if dim, end, ok := matchToken(s, i); ok {
			ntokens++
			v, has := perm[dim]
			if !has {
				unknown = append(unknown, dim)
			}
			b.WriteString(v)
			i = end
			continue
		}
		b.WriteByte(s[i])
		i++
	}
	return b.String(), unknown, ntokens
}

// ---------------------------------------------------------------------------
// generators

var wsBits = []string{"", "", " ", "\t", "\n", "  ", " \t\n", "\r\n", "\f"}
var nearMisses = []string{"{matrix}", "{{matrix.}}", "{{ matrix .a}}", "{{matrixx}}", "{{Matrix}}", "{{matrix.a}", "{{{{matrix}}", "{{matrix}", "{ {matrix}}", "{{matrix .a}}", "{{ matrix. a }}", "{{matrix.a b}}", "{{matrix..}}", "{{matrix,a}}", "{{ matrix}}", "{{matrix}}}}", "}}{{", "{{matrix.a$}}", "{{\vmatrix}}", "{{matrix.}} {{", "matrix", "{{}}"}

type ctx struct {
	t            *rapid.T
	dims         []string // permutation dimensions
	unknownDims  []string
	allowUnknown bool
	stats        *caseStats
}

type caseStats struct {
	positions  int
	nearMiss   int
	tokenValue bool
	unknown    int
	edited     int
}

func (c *ctx) token(dim string) string {
	w := rapid.SampledFrom(wsBits)
	s := "{{" + w.Draw(c.t, "ws1") + "matrix"
	if dim != "" {
		s += "." + dim
	}
	return s + w.Draw(c.t, "ws2") + "}}"
}

func (c *ctx) str(label string) string {
	n := rapid.IntRange(0, 4).Draw(c.t, label+"n")
	var b strings.Builder
	hasTok := false
	for i := 0; i < n; i++ {
		switch k := rapid.IntRange(0, 9).Draw(c.t, "seg"); {
		case k < 3:
			b.WriteString(rapid.SampledFrom([]string{"echo ", "a", "-", "x y", "$", "{", "}", "{{", "}}", ".", "matrix", "\n"}).Draw(c.t, "w"))
		case k < 6 && len(c.dims) > 0:
			b.WriteString(c.token(rapid.SampledFrom(c.dims).Draw(c.t, "dim")))
			hasTok = true
		case k == 6:
			b.WriteString(rapid.SampledFrom(nearMisses).Draw(c.t, "near"))
			c.stats.nearMiss++
		case k == 7 && c.allowUnknown:
			b.WriteString(c.token(rapid.SampledFrom(c.unknownDims).Draw(c.t, "udim")))
			c.stats.unknown++
		case k == 8:
			b.WriteString(strs.S().Draw(c.t, "s"))
		default:
			b.WriteString(rapid.SampledFrom([]string{"img", "v1", "path/"}).Draw(c.t, "w2"))
		}
	}
	if rapid.IntRange(0, 59).Draw(c.t, label+"long") == 0 && len(c.dims) > 0 {
		// a long string (beyond any small-buffer threshold) with tokens at both ends
		d := rapid.SampledFrom(c.dims).Draw(c.t, "ldim")
		s := c.token(d) + strings.Repeat("0123456789abcdef", rapid.IntRange(300, 700).Draw(c.t, "lrep")) + b.String() + c.token(d)
		c.stats.positions++
		return s
	}
	if hasTok {
		c.stats.positions++
	}
	return b.String()
}

func (c *ctx) keyStr(label string, i int) string {
	// keys are made distinct by an index prefix; the suffix may carry tokens
	return fmt.Sprintf("k%d%s", i, c.str(label))
}

// value generates a nested value as plugin configs hold them (Go maps) or as
// unknown fields hold them (ordered maps) depending on orderedMaps.
func (c *ctx) value(depth int, orderedMaps bool) any {
	switch k := rapid.IntRange(0, 9).Draw(c.t, "vk"); {
	case depth >= 3 || k < 5:
		return c.str("val")
	case k == 5:
		return rapid.SampledFrom([]any{1, true, nil, 2.5}).Draw(c.t, "scalar")
	case k < 8:
		n := rapid.IntRange(0, 3).Draw(c.t, "sn")
		s := make([]any, 0, n)
		for i := 0; i < n; i++ {
			s = append(s, c.value(depth+1, orderedMaps))
		}
		return s
	default:
		n := rapid.IntRange(0, 4).Draw(c.t, "mn")
		if rapid.IntRange(0, 5).Draw(c.t, "big") == 0 {
			n = rapid.IntRange(9, 30).Draw(c.t, "bign")
		}
		if orderedMaps && rapid.IntRange(0, 5).Draw(c.t, "stringmap") == 0 {
			// an ordered map of strings (what an env block is), as a program may put one into a plugin
			// config or an unknown field
			ms := ordered.NewMap[string, string](n)
			for i := 0; i < n; i++ {
				ms.Set(c.keyStr("msk", i), c.str("msv"))
			}
			return ms
		}
		if orderedMaps {
			m := ordered.NewMap[string, any](n)
			for i := 0; i < n; i++ {
				m.Set(c.keyStr("mk", i), c.value(depth+1, orderedMaps))
			}
			if n >= 3 && rapid.IntRange(0, 2).Draw(c.t, "edited") == 0 {
				// a mapping that was edited after it was built or parsed: an entry - one that named a dimension
				// the job does not have - was removed again (or renamed away); it is not part of the step any more
				gone := "zz-removed" + c.token(rapid.SampledFrom(c.unknownDims).Draw(c.t, "gonedim"))
				m.Set(gone, c.token(rapid.SampledFrom(c.unknownDims).Draw(c.t, "gonedim2")))
				if rapid.Bool().Draw(c.t, "renamedaway") {
					first := ""
					m.Range(func(k string, _ any) error {
						if first == "" {
							first = k
						}
						return nil
					})
					v, _ := m.Get(first)
					m.Replace(gone, first, v) // lands on an existing key: the slot of `gone` stays, `first`'s is vacated
				} else {
					m.Delete(gone)
				}
				c.stats.edited++
			}
			return m
		}
		m := make(map[string]any, n)
		for i := 0; i < n; i++ {
			m[c.keyStr("mk", i)] = c.value(depth+1, orderedMaps)
		}
		return m
	}
}

var dimNamePool = []string{"os", "arch", "go.version", "node-version", "X_1", "a", "a.", "-", "0", "A.b-c_d", "matrix"}

// ---------------------------------------------------------------------------
// expected tree

func replaceDeep(n *gt.Node, perm map[string]string, keys bool, unknown *[]string) *gt.Node {
	return canon.MapStrings(n, func(_ string, s string, isKey bool) string {
		if isKey && !keys {
			return s
		}
		out, unk, _ := refReplace(s, perm)
		*unknown = append(*unknown, unk...)
		return out
	}, nil)
}

func dupKeys(n *gt.Node) bool {
	dup := false
	gt.Walk(n, func(_ string, x *gt.Node) {
		if x.Kind == gt.Map {
			seen := map[string]bool{}
			for _, k := range x.Keys {
				if seen[k] {
					dup = true
				}
				seen[k] = true
			}
		}
	})
	return dup
}

// expected applies the reference replacement at the in-scope positions of a
// canon.Step tree and leaves everything else as it was.
func expected(before *gt.Node, perm map[string]string) (*gt.Node, []string) {
	var unknown []string
	exp := before.Clone()
	for i, k := range exp.Keys {
		v := exp.Vals[i]
		switch k {
		case "command", "label":
			exp.Vals[i] = replaceDeep(v, perm, false, &unknown)
		case "plugins":
			exp.Vals[i] = replaceDeep(v, perm, true, &unknown) // "source"/"config" keys carry no tokens
		case "env":
			exp.Vals[i] = replaceDeep(v, perm, false, &unknown) // values only
		case "remaining":
			exp.Vals[i] = replaceDeep(v, perm, true, &unknown)
		}
	}
	return exp, unknown
}

var rec = ev.New("TestPropMatrixInterpolation", "command steps built as structs whose strings at every position (command, label, key, plugin sources, nested plugin config keys/values, env names and values, nested unknown-field keys/values in Go maps and ordered maps incl. maps of 9-30 keys, matrix definition, signature) mix plain text, valid tokens with white-space padding, tokens for dimensions not in the permutation, and near-miss look-alikes; dimension names over [A-Za-z0-9_.-] and the anonymous one; permutation values from S incl. token-shaped values; oracle = hand-written single-pass scanner applied at in-scope positions only; non-trivial = >= 2 positions with tokens and (a near-miss or a token-shaped value); distinct by hash of step and permutation")

func TestPropMatrixInterpolation(t *testing.T) {
	ev.Check(t, 20000, 600000, func(t *rapid.T) {
		st := &caseStats{}
		c := &ctx{t: t, stats: st}
		// permutation
		nd := rapid.IntRange(0, 3).Draw(t, "ndims")
		perm := map[string]string{}
		pool := append([]string{""}, dimNamePool...)
		for len(perm) < nd {
			d := rapid.SampledFrom(pool).Draw(t, "dimname")
			if _, dup := perm[d]; dup {
				continue
			}
			var v string
			switch rapid.IntRange(0, 5).Draw(t, "valkind") {
			case 0:
				v = rapid.SampledFrom([]string{"{{matrix}}", "{{matrix.os}}", "{{ matrix.a }}", "x{{matrix}}y", "{{matrix.nope}}"}).Draw(t, "tokval")
				st.tokenValue = true
			case 1:
				v = strs.S().Draw(t, "sval")
			default:
				v = rapid.SampledFrom([]string{"linux", "amd64", "1.22", "", "x", "$HOME", "a b"}).Draw(t, "val")
			}
			perm[d] = v
			c.dims = append(c.dims, d)
		}
		sort.Strings(c.dims)
		for _, d := range pool {
			if _, in := perm[d]; !in {
				c.unknownDims = append(c.unknownDims, d)
			}
		}
		c.allowUnknown = nd > 0 && rapid.IntRange(0, 4).Draw(t, "allowUnknown") == 0

		step := &pipeline.CommandStep{
			Command: c.str("command"),
			Label:   c.str("label"),
			Key:     c.str("key"),
		}
		if nd > 0 && len(c.unknownDims) > 0 && rapid.IntRange(0, 19).Draw(t, "selfreproducing") == 0 {
			// a value that rebuilds the very string it is put into: the field is one known token followed by
			// a token of a dimension the permutation lacks, and the known dimension's value is that whole
			// text. The output equals the input - and the unknown token is still an error.
			d := rapid.SampledFrom(c.dims).Draw(t, "selfdim")
			text := c.token(d) + c.token(rapid.SampledFrom(c.unknownDims).Draw(t, "selfunknown"))
			perm[d] = text
			if rapid.Bool().Draw(t, "selfincommand") {
				step.Command = text
			} else {
				step.Label = text
			}
			st.tokenValue = true
			st.positions++
		}
		for i, n := 0, rapid.IntRange(0, 3).Draw(t, "nplugins"); i < n; i++ {
			var cfg any
			if rapid.Bool().Draw(t, "hascfg") {
				cfg = c.value(1, rapid.IntRange(0, 3).Draw(t, "orderedcfg") == 0)
			}
			step.Plugins = append(step.Plugins, &pipeline.Plugin{Source: c.str("source"), Config: cfg})
		}
		if rapid.Bool().Draw(t, "hasenv") {
			step.Env = map[string]string{}
			n := rapid.IntRange(0, 4).Draw(t, "nenv")
			if rapid.IntRange(0, 5).Draw(t, "bigenv") == 0 {
				n = rapid.IntRange(9, 20).Draw(t, "nenvbig")
			}
			for i := 0; i < n; i++ {
				step.Env[c.keyStr("envk", i)] = c.str("envv")
			}
		}
		if rapid.Bool().Draw(t, "hasrem") {
			step.RemainingFields = map[string]any{}
			n := rapid.IntRange(0, 4).Draw(t, "nrem")
			if rapid.IntRange(0, 5).Draw(t, "bigrem") == 0 {
				n = rapid.IntRange(9, 30).Draw(t, "nrembig")
			}
			for i := 0; i < n; i++ {
				step.RemainingFields[c.keyStr("remk", i)] = c.value(1, true)
			}
			// the attributes real pipelines carry in these unknown fields, under their own names
			for _, attr := range []string{"depends_on", "agents", "retry", "artifact_paths", "timeout_in_minutes", "concurrency_group", "if", "branches", "soft_fail", "notify", "priority", "parallelism", "allow_dependency_failure", "skip", "type"} {
				if rapid.IntRange(0, 7).Draw(t, "attr") == 0 {
					step.RemainingFields[attr] = c.value(1, true)
				}
			}
		}
		if rapid.Bool().Draw(t, "hassig") {
			step.Signature = &pipeline.Signature{Algorithm: c.str("alg"), SignedFields: []string{c.str("sf")}, Value: c.str("sigval")}
		}
		// a matrix for which the permutation is valid; its strings carry tokens too
		if nd > 0 || rapid.Bool().Draw(t, "emptymatrix") {
			m := &pipeline.Matrix{Setup: pipeline.MatrixSetup{}}
			// the permutation is valid either as a combination of setup values, or - one case in three -
			// only through an adjustment that brings in a value the setup does not list
			viaAdjustment := nd > 0 && rapid.IntRange(0, 2).Draw(t, "viaadj") == 0
			for d, v := range perm {
				// value lists built with append keep spare capacity, like any list a program builds
				l := make([]string, 0, 2+rapid.IntRange(0, 3).Draw(t, "spare"))
				l = append(l, c.str("setupval")+"#1", "zz"+c.str("setupval2"))
				if !viaAdjustment {
					l = append(l[:1:cap(l)], v, l[1])
				}
				m.Setup[d] = l
			}
			if viaAdjustment {
				w := pipeline.MatrixAdjustmentWith{}
				for d, v := range perm {
					w[d] = v
				}
				m.Adjustments = append(m.Adjustments, &pipeline.MatrixAdjustment{With: w})
			}
			if rapid.Bool().Draw(t, "adj") && nd > 0 {
				w := pipeline.MatrixAdjustmentWith{}
				for d := range perm {
					w[d] = c.str("withval") + "#adj"
				}
				m.Adjustments = append(m.Adjustments, &pipeline.MatrixAdjustment{With: w, RemainingFields: map[string]any{"soft_fail": c.str("sf")}})
			}
			if rapid.Bool().Draw(t, "mrem") {
				m.RemainingFields = map[string]any{c.keyStr("mrk", 0): c.str("mrv")}
			}
			step.Matrix = m
		}

		before := canon.Step(step, canon.Raw)
		exp, unknown := expected(before, perm)
		if nd == 0 {
			exp, unknown = before.Clone(), nil // empty permutation changes nothing
		}
		if dupKeys(exp) {
			rec.Excluded("replaced keys collide within one mapping")
			return
		}
		mp := pipeline.MatrixPermutation{}
		for d, v := range perm {
			mp[d] = v
		}
		var err error
		func() {
			defer func() {
				if r := recover(); r != nil {
					err = fmt.Errorf("PANIC: %v", r)
					unknown = nil
				}
			}()
			err = step.InterpolateMatrixPermutation(mp)
		}()
		show := func() string {
			j, _ := json.Marshal(map[string]any{"perm": perm, "before": before})
			return string(j)
		}
		if err != nil && strings.HasPrefix(err.Error(), "PANIC") {
			t.Fatalf("%v\n%s", err, show())
		}
		if len(unknown) > 0 {
			if err == nil {
				t.Fatalf("token for dimension(s) %q not in the permutation, but the call succeeded\n%s", unknown, show())
			}
		} else {
			if err != nil {
				t.Fatalf("InterpolateMatrixPermutation failed: %v\n%s", err, show())
			}
			after := canon.Step(step, canon.Raw)
			if d := gt.Diff(exp, after, gt.Opt{}); d != "" {
				t.Fatalf("after interpolation the step differs from the reference: %s\n%s", d, show())
			}
		}
		nt := st.positions >= 2 && (st.nearMiss > 0 || st.tokenValue)
		cls := []string{fmt.Sprintf("dims=%d", nd)}
		if len(unknown) > 0 {
			cls = append(cls, "unknown-token")
		}
		if st.tokenValue {
			cls = append(cls, "token-shaped-value")
		}
		if st.edited > 0 {
			cls = append(cls, "ordered-map-with-a-removed-entry")
		}
		rec.Case(ev.Hash(show()), nt, cls...)
		rec.MaybeSample(nt, func() any {
			return map[string]any{"perm": perm, "command": gtStr(before, "command"), "label": gtStr(before, "label")}
		})
	})
}

func gtStr(n *gt.Node, k string) string {
	if v, ok := n.Get(k); ok {
		return v.S
	}
	return ""
}

// The reference scanner itself is pinned on hand-checked examples.
func TestScannerExamples(t *testing.T) {
	ev.SkipIfReplayingOther(t)
	perm := map[string]string{"": "V", "a": "A", "a.": "DOT"}
	for in, want := range map[string]string{
		"{{matrix}}":               "V",
		"{{ matrix }}":             "V",
		"{{\tmatrix.a\n}}":         "A",
		"{{matrix.a.}}":            "DOT",
		"{{matrix.}}":              "{{matrix.}}",
		"{matrix}":                 "{matrix}",
		"{{{{matrix}}":             "{{V",
		"{{matrix}}}}":             "V}}",
		"{{matrixx}}":              "{{matrixx}}",
		"{{ matrix .a}}":           "{{ matrix .a}}",
		"x{{matrix}}y{{matrix.a}}": "xVyA",
	} {
		if got, unk, _ := refReplace(in, perm); got != want || len(unk) != 0 {
			t.Fatalf("refReplace(%q) = %q (unknown %v), want %q", in, got, unk, want)
		}
	}
}

// ---------------------------------------------------------------------------
// Steps that come out of one YAML document and share anchored blocks: every alias is a copy of its
// own, so applying a permutation to one step leaves its matrix definition, and every other step,
// exactly as they were - and each step is interpolated from ITS tokens.

var recParsed = ev.New("TestPropParsedAliasedSteps", "YAML documents of 2-4 command steps that alias the same anchored mappings / sequences (holding matrix tokens) as unknown fields, inside matrix adjustments' extras and as plugin configs; each step in turn gets a permutation of its own: the result is the reference scanner applied to that step's own snapshot, the step's matrix definition and all other steps (snapshots taken before) are unchanged; non-trivial = >= 2 steps alias the same collection; distinct by (document, permutations)")

func TestPropParsedAliasedSteps(t *testing.T) {
	ev.Check(t, 1500, 30000, func(t *rapid.T) {
		tok := func(label string) string {
			return rapid.SampledFrom([]string{"{{matrix.os}}", "{{ matrix.os }}", "pre-{{matrix.os}}-post", "{{matrix.os}}{{matrix.os}}", "plain", "{matrix.os}", "x"}).Draw(t, label)
		}
		var b strings.Builder
		fmt.Fprintf(&b, "x-shared-map: &m {queue: %q, nested: {deep: %q}, list: [%q, other]}\n", tok("a"), tok("b"), tok("c"))
		fmt.Fprintf(&b, "x-shared-list: &l [%q, {k: %q}]\n", tok("d"), tok("e"))
		b.WriteString("steps:\n")
		ns := rapid.IntRange(2, 4).Draw(t, "nsteps")
		shared := 0
		for i := 0; i < ns; i++ {
			fmt.Fprintf(&b, "  - command: %q\n    label: %q\n", "echo "+tok("cmd"), tok("lbl"))
			used := false
			if rapid.IntRange(0, 3).Draw(t, "agents") > 0 {
				b.WriteString("    agents: *m\n")
				used = true
			}
			if rapid.Bool().Draw(t, "retry") {
				b.WriteString("    retry: *l\n")
				used = true
			}
			if rapid.Bool().Draw(t, "plugin") {
				b.WriteString("    plugins:\n      - docker#v1: *m\n")
			}
			b.WriteString("    matrix:\n      setup: {os: [linux, darwin]}\n")
			if rapid.Bool().Draw(t, "adj") {
				b.WriteString("      adjustments:\n        - with: {os: plan9}\n          soft_fail: *l\n          notes: *m\n")
				used = true
			}
			if used {
				shared++
			}
		}
		text := b.String()
		p, err := pipeline.Parse(strings.NewReader(text))
		if err != nil {
			t.Fatalf("Parse: %v\n%s", err, text)
		}
		var steps []*pipeline.CommandStep
		for _, s := range p.Steps {
			steps = append(steps, s.(*pipeline.CommandStep))
		}
		snap := func() []*gt.Node {
			out := make([]*gt.Node, len(steps))
			for i, s := range steps {
				out[i] = canon.Step(s, canon.Raw)
			}
			return out
		}
		var perms []string
		for i, s := range steps {
			before := snap()
			v := rapid.SampledFrom([]string{"linux", "darwin", "plan9"}).Draw(t, "permval")
			if v == "plan9" && (s.Matrix == nil || len(s.Matrix.Adjustments) == 0) {
				v = "linux" // only an adjustment brings plan9 in
			}
			perms = append(perms, v)
			perm := map[string]string{"os": v}
			exp, unknown := expected(before[i], perm)
			if len(unknown) > 0 {
				t.Fatalf("harness: unknown dimensions %v", unknown)
			}
			if err := s.InterpolateMatrixPermutation(pipeline.MatrixPermutation{"os": v}); err != nil {
				t.Fatalf("step %d: InterpolateMatrixPermutation(%v): %v\n%s", i, perm, err, text)
			}
			after := snap()
			if d := gt.Diff(exp, after[i], gt.Opt{}); d != "" {
				t.Fatalf("step %d after the permutation %v differs from the reference applied to its own strings (matrix definition included): %s\n%s", i, perm, d, text)
			}
			for j := range steps {
				if j != i {
					if d := gt.Diff(before[j], after[j], gt.Opt{}); d != "" {
						t.Fatalf("applying a permutation to step %d changed step %d: %s\n%s", i, j, d, text)
					}
				}
			}
		}
		recParsed.Case(ev.Hash(text, strings.Join(perms, ",")), shared >= 2, fmt.Sprintf("steps=%d", ns))
		recParsed.MaybeSample(shared >= 2, func() any { return map[string]any{"document": text, "permutations": perms} })
	})
}
