// C04 - env interpolation reaches every string exactly once, deterministically.
package c04

import (
	"bytes"
	"errors"
	"fmt"
	"strings"
	"testing"

	pipeline "github.com/buildkite/go-pipeline"
	"github.com/buildkite/go-pipeline/warning"
	"github.com/buildkite/interpolate"
	"pgregory.net/rapid"

	"verif/harness/internal/canon"
	"verif/harness/internal/doc"
	"verif/harness/internal/envx"
	"verif/harness/internal/ev"
	"verif/harness/internal/gt"
)

func TestMain(m *testing.M) { ev.Main(m) }

var vars = []string{"A", "B", "C", "HOME", "UNSET1", "X_1"}

// the environment: values that themselves look like references, so a second
// expansion pass would be visible
var envValues = map[string]string{"A": "a-val", "B": "$A", "C": "$$A and ${HOME}", "HOME": "/home/u", "X_1": ""}

type tstats struct{ refs, escapes, failing int }

// whole strings that are exactly one reference, or exactly the value / the text another one expands
// to: with these among the keys of one mapping, the expansion of one key can equal the not yet
// expanded text of another (renaming collisions), and values equal raw references
var pureRefs = []string{"$B", "$A", "${B}", "${A}", "$C", "$HOME", "a-val", "/home/u", "$$A and ${HOME}", "$X_1"}

func template(t *rapid.T, label string, st *tstats) string {
	if rapid.IntRange(0, 9).Draw(t, label+"pure") == 4 {
		s := rapid.SampledFrom(pureRefs).Draw(t, label+"pureref")
		if strings.Contains(s, "$") {
			st.refs++
		}
		return s
	}
	n := rapid.IntRange(0, 4).Draw(t, label+"n")
	var b strings.Builder
	for i := 0; i < n; i++ {
		v := rapid.SampledFrom(vars).Draw(t, "var")
		switch k := rapid.IntRange(0, 39).Draw(t, label+"seg"); {
		case k < 12:
			b.WriteString(rapid.SampledFrom([]string{"echo ", "lit", "-", " ", "x/y", "1", "é", ":", "#", "{{matrix}}"}).Draw(t, "lit"))
		case k < 16:
			b.WriteString("$" + v)
			st.refs++
		case k < 20:
			b.WriteString("${" + v + "}")
			st.refs++
		case k < 23:
			b.WriteString("${" + v + ":-dflt}")
			st.refs++
		case k < 25:
			b.WriteString("${" + v + "-d}")
			st.refs++
		case k < 27:
			b.WriteString("${" + v + ":1:2}")
			st.refs++
		case k < 31:
			b.WriteString("$$" + v)
			st.escapes++
		case k < 34:
			b.WriteString("\\$" + v)
			st.escapes++
		case k < 36:
			b.WriteString("$${" + v + "}")
			st.escapes++
		case k == 36:
			// escapes with nothing after them (they may end the string)
			b.WriteString(rapid.SampledFrom([]string{"$$", "\\$", "5\\$", "$$$"}).Draw(t, "bareesc"))
			st.escapes++
		case k == 37:
			b.WriteString("${" + v + ":-$A}")
			st.refs++
		case k == 38:
			if rapid.IntRange(0, 3).Draw(t, "rarefail") == 0 {
				b.WriteString(rapid.SampledFrom([]string{"${UNSET1?}", "$(", "${", "${A"}).Draw(t, "failing"))
				st.failing++
			}
		default:
			b.WriteString(rapid.SampledFrom([]string{"$", "$ ", "a$", "$1", "$-"}).Draw(t, "lone"))
		}
	}
	return b.String()
}

// expandTree applies the single-pass expansion to every string (keys and
// values) of a canon tree, leaving step signatures and the structural "·kind"
// markers alone. firstErr is the first expansion error met.
func expandTree(n *gt.Node, env interpolate.Env, firstErr *error, inStep bool) *gt.Node {
	if n == nil {
		return nil
	}
	exp := func(s string) string {
		out, err := interpolate.Interpolate(env, s)
		if err != nil {
			if *firstErr == nil {
				*firstErr = fmt.Errorf("expanding %q: %w", s, err)
			}
			return s
		}
		return out
	}
	c := *n
	switch n.Kind {
	case gt.Str:
		c.S = exp(n.S)
	case gt.Seq:
		c.Items = make([]*gt.Node, len(n.Items))
		for i, x := range n.Items {
			c.Items[i] = expandTree(x, env, firstErr, false)
		}
	case gt.Map:
		isStep := n.Has("·kind")
		c.Keys = make([]string, len(n.Keys))
		c.Vals = make([]*gt.Node, len(n.Vals))
		for i, k := range n.Keys {
			if k == "·kind" || (isStep && k == "signature") {
				c.Keys[i], c.Vals[i] = k, n.Vals[i].Clone()
				continue
			}
			if isStep {
				// structural field names of the canon tree are not pipeline strings
				c.Keys[i] = k
			} else {
				c.Keys[i] = exp(k)
			}
			c.Vals[i] = expandTree(n.Vals[i], env, firstErr, false)
		}
	}
	return &c
}

// structural canon maps below a step (plugins items, matrix, adjustments, cache)
// also carry field-name keys; they contain no '$', so expanding them is a no-op.

func dupKeys(n *gt.Node) bool {
	dup := false
	gt.Walk(n, func(_ string, x *gt.Node) {
		if x.Kind == gt.Map {
			seen := map[string]bool{}
			for _, k := range x.Keys {
				if seen[k] {
					dup = true
				}
				seen[k] = true
			}
		}
	})
	return dup
}

var rec = ev.New("TestPropEveryStringOnce", "grammar-generated pipelines (all step kinds incl. unknown steps, groups, anchors/aliases, maps of 0-24 keys) whose strings at every position - labels, keys, commands, plugin sources, config keys and values, step env names and values, matrix setup / adjustments / skip reasons, cache name / paths / size / extras, group, wait / input / trigger / unknown contents, top-level extras; mapping keys as well as values - are templates over literals, $VAR, ${VAR}, defaults, substrings, escapes ($$VAR, \\$VAR, $${VAR}), lone $, and rare failing forms, with an environment whose values look like references; oracle = interpolate.Interpolate applied string by string to an object-model walk of the parsed pipeline (signatures untouched, nothing else changes), error iff some expansion fails, five runs identical; non-trivial = >= 1 escaped reference and >= 5 strings with references, or a map of > 8 entries with references in keys; distinct by hash of the YAML text")

func TestPropEveryStringOnce(t *testing.T) {
	ev.Check(t, 1000, 10000, func(t *rapid.T) {
		st := &tstats{}
		cfg := doc.Config{
			Str:       func(t *rapid.T, role string) string { return template(t, role, st) },
			PluginSrc: func(t *rapid.T) string { return "plug" + template(t, "src", st) },
			Anchors:   rapid.IntRange(0, 2).Draw(t, "anchors") == 0, Floats: true, Timestamps: true,
			BigMaps: true, BigMapOneIn: 4, EmptyKey: true, MergeKeyStr: true, EmptyMatrix: true, UnknownSteps: true,
			BothCommands: true, Signature: true, NoPipelineEnv: true,
		}
		g := doc.NewG(t, cfg)
		root := g.Pipeline()
		d, err := doc.Render(root, 2, 20000)
		if err != nil {
			rec.Excluded("render-fault-or-outside")
			return
		}
		parse := func() *pipeline.Pipeline {
			p, perr := pipeline.Parse(bytes.NewReader(d.YAML))
			if p == nil || (perr != nil && !warning.Is(perr)) {
				return nil
			}
			return p
		}
		p0 := parse()
		if p0 == nil {
			rec.Excluded("document does not parse (C03 / C13 decide that)")
			return
		}
		before := canon.Pipeline(p0, canon.Raw)
		env := envx.New(false, envValues)
		var wantErr error
		want := expandTree(before, env, &wantErr, false)
		if wantErr == nil && dupKeys(want) {
			rec.Excluded("expanded keys collide within one mapping")
			return
		}
		var first *gt.Node
		for run := 0; run < 5; run++ {
			p := parse()
			var ierr error
			func() {
				defer func() {
					if r := recover(); r != nil {
						ierr = fmt.Errorf("PANIC: %v", r)
					}
				}()
				ierr = p.Interpolate(envx.New(false, envValues), rapid.Bool().Draw(t, "prefer"))
			}()
			if ierr != nil && strings.HasPrefix(ierr.Error(), "PANIC") {
				t.Fatalf("%v\n%s", ierr, d.YAML)
			}
			if wantErr != nil {
				if ierr == nil {
					t.Fatalf("a string fails to expand (%v) but Interpolate returned nil\n%s", wantErr, d.YAML)
				}
				continue
			}
			if ierr != nil {
				t.Fatalf("Interpolate returned %v, but every string expands without error\n%s", ierr, d.YAML)
			}
			after := canon.Pipeline(p, canon.Raw)
			if diff := gt.Diff(want, after, gt.Opt{}); diff != "" {
				t.Fatalf("after interpolation the pipeline differs from the single-pass expansion of every string: %s\n(run %d)\n---- document ----\n%s", diff, run, d.YAML)
			}
			if first == nil {
				first = after
			} else if diff := gt.Diff(first, after, gt.Opt{}); diff != "" {
				t.Fatalf("two runs on the same input differ: %s\n%s", diff, d.YAML)
			}
		}
		bigKeyed := false
		gt.Walk(before, func(_ string, x *gt.Node) {
			if x.Kind == gt.Map && len(x.Keys) > 8 {
				for _, k := range x.Keys {
					if strings.Contains(k, "$") {
						bigKeyed = true
					}
				}
			}
		})
		nt := wantErr == nil && ((st.escapes >= 1 && st.refs >= 5) || bigKeyed)
		cls := []string{}
		if wantErr != nil {
			cls = append(cls, "expansion-error")
		}
		if bigKeyed {
			cls = append(cls, "big-map-with-reference-keys")
		}
		if g.Feat["alias"] > 0 {
			cls = append(cls, "aliases")
		}
		for _, f := range []string{"cache-map", "cache-string", "adj-skip-string", "unknown-step", "group"} {
			if g.Feat[f] > 0 {
				cls = append(cls, f)
			}
		}
		rec.Case(ev.HashBytes(d.YAML), nt, cls...)
		rec.MaybeSample(nt, func() any { return string(d.YAML[:min(len(d.YAML), 1200)]) })
	})
}

// Escapes come out literally and are never expanded a second time (asserted on the nose).
func TestCorpusEscapes(t *testing.T) {
	ev.SkipIfReplayingOther(t)
	src := "steps:\n  - command: \"$$A \\\\$A $${A} $B $C\"\n    label: \"$$A\"\n    env: {\"K$$A\": \"$$A\"}\n    agents: {\"q$$A\": [\"$$A\", {\"n$$A\": \"\\\\$A\"}]}\n"
	p, err := pipeline.Parse(strings.NewReader(src))
	if err != nil {
		t.Fatal(err)
	}
	if err := p.Interpolate(envx.New(false, envValues), false); err != nil {
		t.Fatal(err)
	}
	cs := p.Steps[0].(*pipeline.CommandStep)
	if cs.Command != "$A $A ${A} $A $$A and ${HOME}" {
		t.Fatalf("command = %q", cs.Command)
	}
	if cs.Label != "$A" || cs.Env["K$A"] != "$A" {
		t.Fatalf("label %q env %v", cs.Label, cs.Env)
	}
	want, _ := gt.FromJSON([]byte(`{"q$A": ["$A", {"n$A": "$A"}]}`))
	if d := gt.Diff(want, canon.Value(cs.RemainingFields["agents"]), gt.Opt{}); d != "" {
		t.Fatalf("agents: %s", d)
	}
	_ = errors.New
}
