// C04 - env interpolation reaches every string exactly once, deterministically.
package c04

import (
	"bytes"
	"encoding/json"
	"errors"
	"fmt"
	"strings"
	"testing"

	pipeline "github.com/buildkite/go-pipeline"
	"github.com/buildkite/go-pipeline/warning"
	"github.com/buildkite/interpolate"
	"pgregory.net/rapid"

	"verif/harness/internal/canon"
	"verif/harness/internal/doc"
	"verif/harness/internal/envx"
	"verif/harness/internal/ev"
	"verif/harness/internal/gt"
)

func TestMain(m *testing.M) { ev.Main(m) }

var vars = []string{"A", "B", "C", "HOME", "UNSET1", "X_1"}

// the environment: values that themselves look like references, so a second
// expansion pass would be visible
var envValues = map[string]string{"A": "a-val", "B": "$A", "C": "$$A and ${HOME}", "HOME": "/home/u", "X_1": "",
	// variables whose VALUE is (part of) another variable's NAME: env-block names built by expansion
	"NAMEOF": "HOME", "PFX": "V", "NAMEA": "A"}

type tstats struct {
	refs, escapes, failing, nkey int
	// failing forms are drawn only in documents that allow them (one in four), so that most
	// documents exercise the value comparison rather than the error path
	allowFail bool
	// failAt > 0: the failAt-th string generated for the document (and only that one) gets a failing
	// expansion appended - so that in some documents exactly ONE string fails, at a position drawn over
	// all positions (a plugin source, a cache path, a key of an unknown field ...): the call must report it
	failAt, count int
}

// whole strings that are exactly one reference, or exactly the value / the text another one expands
// to: with these among the keys of one mapping, the expansion of one key can equal the not yet
// expanded text of another (renaming collisions), and values equal raw references
var pureRefs = []string{"$B", "$A", "${B}", "${A}", "$C", "$HOME", "a-val", "/home/u", "$$A and ${HOME}", "$X_1"}

var pureKeyRefs = []string{"$B", "$A", "$C", "$HOME", "$$A and ${HOME}"}

func template(t *rapid.T, label string, st *tstats) string {
	s := template0(t, label, st)
	if !strings.HasSuffix(label, "-tail") {
		st.count++
		if st.count == st.failAt {
			s += "${UNSET1?}"
			st.failing++
		}
	}
	return s
}

func template0(t *rapid.T, label string, st *tstats) string {
	isKey := label == "anykey" || label == "envkey" || label == "dim"
	if isKey && rapid.IntRange(0, 9).Draw(t, label+"pure") != 4 {
		// mapping keys carry a literal prefix that is unique in the document, so that two keys of one
		// mapping cannot expand to the same text (colliding expanded keys are outside the property and
		// would exclude the whole document); one key in ten is a pure reference instead
		st.nkey++
		return fmt.Sprintf("k%d", st.nkey) + template0(t, label+"-tail", st)
	}
	if isKey || rapid.IntRange(0, 9).Draw(t, label+"pure") == 4 {
		from := pureRefs
		if isKey {
			// mapping keys: pure references whose expansions differ pairwise (colliding expanded keys
			// are outside the property and would exclude the document)
			from = pureKeyRefs
		}
		s := rapid.SampledFrom(from).Draw(t, label+"pureref")
		if strings.Contains(s, "$") {
			st.refs++
		}
		return s
	}
	n := rapid.IntRange(0, 4).Draw(t, label+"n")
	var b strings.Builder
	for i := 0; i < n; i++ {
		v := rapid.SampledFrom(vars).Draw(t, "var")
		switch k := rapid.IntRange(0, 42).Draw(t, label+"seg"); {
		case k >= 40:
			// an expansion whose operand spans lines (a default holding a script, a message of two lines)
			b.WriteString("${" + v + rapid.SampledFrom([]string{":-two\nlines}", "-a\n  b}", ":-${B}\n}", ":-\n}", ":-x\r\ny}", ":-$A\n$B}"}).Draw(t, "multiline"))
			st.refs++
		case k < 12:
			b.WriteString(rapid.SampledFrom([]string{"echo ", "lit", "-", " ", "x/y", "1", "é", ":", "#", "{{matrix}}", "\n", "\r\n"}).Draw(t, "lit"))
		case k < 16:
			b.WriteString("$" + v)
			st.refs++
		case k < 20:
			b.WriteString("${" + v + "}")
			st.refs++
		case k < 23:
			b.WriteString("${" + v + ":-dflt}")
			st.refs++
		case k < 25:
			b.WriteString("${" + v + "-d}")
			st.refs++
		case k < 27:
			b.WriteString("${" + v + ":1:2}")
			st.refs++
		case k < 31:
			b.WriteString("$$" + v)
			st.escapes++
		case k < 34:
			b.WriteString("\\$" + v)
			st.escapes++
		case k < 36:
			b.WriteString("$${" + v + "}")
			st.escapes++
		case k == 36:
			// escapes with nothing after them (they may end the string)
			b.WriteString(rapid.SampledFrom([]string{"$$", "\\$", "5\\$", "$$$"}).Draw(t, "bareesc"))
			st.escapes++
		case k == 37:
			b.WriteString("${" + v + ":-$A}")
			st.refs++
		case k == 38:
			if st.allowFail && rapid.IntRange(0, 3).Draw(t, "rarefail") == 0 {
				b.WriteString(rapid.SampledFrom([]string{"${UNSET1?}", "$(", "${", "${A"}).Draw(t, "failing"))
				st.failing++
			}
		default:
			b.WriteString(rapid.SampledFrom([]string{"$", "$ ", "a$", "$1", "$-"}).Draw(t, "lone"))
		}
	}
	s := b.String()
	if !st.allowFail {
		// a lone `$` followed by the literal {{matrix}} reads as the (failing) start of `${...}`
		s = strings.ReplaceAll(s, "${{", "$ {{")
	}
	return s
}

// expandTree applies the single-pass expansion to every string (keys and
// values) of a canon tree, leaving step signatures and the structural "·kind"
// markers alone. firstErr is the first expansion error met.
func expandTree(n *gt.Node, env interpolate.Env, firstErr *error, inStep bool) *gt.Node {
	if n == nil {
		return nil
	}
	exp := func(s string) string {
		out, err := interpolate.Interpolate(env, s)
		if err != nil {
			if *firstErr == nil {
				*firstErr = fmt.Errorf("expanding %q: %w", s, err)
			}
			return s
		}
		return out
	}
	c := *n
	switch n.Kind {
	case gt.Str:
		c.S = exp(n.S)
	case gt.Seq:
		c.Items = make([]*gt.Node, len(n.Items))
		for i, x := range n.Items {
			c.Items[i] = expandTree(x, env, firstErr, false)
		}
	case gt.Map:
		isStep := n.Has("·kind")
		c.Keys = make([]string, len(n.Keys))
		c.Vals = make([]*gt.Node, len(n.Vals))
		for i, k := range n.Keys {
			if k == "·kind" || (isStep && k == "signature") {
				c.Keys[i], c.Vals[i] = k, n.Vals[i].Clone()
				continue
			}
			if isStep {
				// structural field names of the canon tree are not pipeline strings
				c.Keys[i] = k
			} else {
				c.Keys[i] = exp(k)
			}
			c.Vals[i] = expandTree(n.Vals[i], env, firstErr, false)
		}
	}
	return &c
}

// structural canon maps below a step (plugins items, matrix, adjustments, cache)
// also carry field-name keys; they contain no '$', so expanding them is a no-op.

func dupKeys(n *gt.Node) bool {
	dup := false
	gt.Walk(n, func(_ string, x *gt.Node) {
		if x.Kind == gt.Map {
			seen := map[string]bool{}
			for _, k := range x.Keys {
				if seen[k] {
					dup = true
				}
				seen[k] = true
			}
		}
	})
	return dup
}

var rec = ev.New("TestPropEveryStringOnce", "grammar-generated pipelines (all step kinds incl. unknown steps, groups, anchors/aliases, maps of 0-24 keys) whose strings at every position - labels, keys, commands, plugin sources, config keys and values, step env names and values, matrix setup / adjustments / skip reasons, cache name / paths / size / extras, group, wait / input / trigger / unknown contents, top-level extras; mapping keys as well as values - are templates over literals, $VAR, ${VAR}, defaults, substrings, escapes ($$VAR, \\$VAR, $${VAR}), lone $, and rare failing forms, with an environment whose values look like references; oracle = interpolate.Interpolate applied string by string to an object-model walk of the parsed pipeline (signatures untouched, nothing else changes), error iff some expansion fails, five runs identical; non-trivial = >= 1 escaped reference and >= 5 strings with references, or a map of > 8 entries with references in keys; distinct by hash of the YAML text")

func TestPropEveryStringOnce(t *testing.T) {
	ev.Check(t, 1000, 10000, func(t *rapid.T) {
		st := &tstats{allowFail: rapid.IntRange(0, 3).Draw(t, "allowfail") == 2}
		if !st.allowFail && rapid.IntRange(0, 3).Draw(t, "singlefail") == 0 {
			st.failAt = rapid.IntRange(1, 60).Draw(t, "failat")
		}
		cfg := doc.Config{
			Str:       func(t *rapid.T, role string) string { return template(t, role, st) },
			PluginSrc: func(t *rapid.T) string { return "plug" + template(t, "src", st) },
			Anchors:   rapid.IntRange(0, 2).Draw(t, "anchors") == 0, Floats: true, Timestamps: true,
			BigMaps: true, BigMapOneIn: 4, EmptyKey: true, MergeKeyStr: true, EmptyMatrix: true, UnknownSteps: true,
			BothCommands: true, Signature: true, NoPipelineEnv: true, CacheDisabledKey: true, OddSkip: true,
		}
		g := doc.NewG(t, cfg)
		root := g.Pipeline()
		d, err := doc.Render(root, 2, 20000)
		if err != nil {
			rec.Excluded("render-fault-or-outside")
			return
		}
		parse := func() *pipeline.Pipeline {
			p, perr := pipeline.Parse(bytes.NewReader(d.YAML))
			if p == nil || (perr != nil && !warning.Is(perr)) {
				return nil
			}
			return p
		}
		p0 := parse()
		if p0 == nil {
			rec.Excluded("document does not parse (C03 / C13 decide that)")
			return
		}
		before := canon.Pipeline(p0, canon.Raw)
		env := envx.New(false, envValues)
		var wantErr error
		want := expandTree(before, env, &wantErr, false)
		if wantErr == nil && dupKeys(want) {
			rec.Excluded("expanded keys collide within one mapping")
			return
		}
		var first *gt.Node
		for run := 0; run < 5; run++ {
			p := parse()
			var ierr error
			func() {
				defer func() {
					if r := recover(); r != nil {
						ierr = fmt.Errorf("PANIC: %v", r)
					}
				}()
				ierr = p.Interpolate(envx.New(false, envValues), rapid.Bool().Draw(t, "prefer"))
			}()
			if ierr != nil && strings.HasPrefix(ierr.Error(), "PANIC") {
				t.Fatalf("%v\n%s", ierr, d.YAML)
			}
			if wantErr != nil {
				if ierr == nil {
					t.Fatalf("a string fails to expand (%v) but Interpolate returned nil\n%s", wantErr, d.YAML)
				}
				continue
			}
			if ierr != nil {
				t.Fatalf("Interpolate returned %v, but every string expands without error\n%s", ierr, d.YAML)
			}
			after := canon.Pipeline(p, canon.Raw)
			if diff := gt.Diff(want, after, gt.Opt{}); diff != "" {
				t.Fatalf("after interpolation the pipeline differs from the single-pass expansion of every string: %s\n(run %d)\n---- document ----\n%s", diff, run, d.YAML)
			}
			if first == nil {
				first = after
			} else if diff := gt.Diff(first, after, gt.Opt{}); diff != "" {
				t.Fatalf("two runs on the same input differ: %s\n%s", diff, d.YAML)
			}
		}
		bigKeyed := false
		gt.Walk(before, func(_ string, x *gt.Node) {
			if x.Kind == gt.Map && len(x.Keys) > 8 {
				for _, k := range x.Keys {
					if strings.Contains(k, "$") {
						bigKeyed = true
					}
				}
			}
		})
		nt := wantErr == nil && ((st.escapes >= 1 && st.refs >= 5) || bigKeyed)
		cls := []string{}
		if st.failAt > 0 && st.failing == 1 {
			cls = append(cls, "exactly-one-failing-string-at-a-drawn-position")
		}
		if wantErr != nil {
			cls = append(cls, "expansion-error")
		}
		if bigKeyed {
			cls = append(cls, "big-map-with-reference-keys")
		}
		if g.Feat["alias"] > 0 {
			cls = append(cls, "aliases")
		}
		for _, f := range []string{"cache-map", "cache-string", "adj-skip-string", "unknown-step", "group"} {
			if g.Feat[f] > 0 {
				cls = append(cls, f)
			}
		}
		rec.Case(ev.HashBytes(d.YAML), nt, cls...)
		rec.MaybeSample(nt, func() any { return string(d.YAML[:min(len(d.YAML), 1200)]) })
	})
}

// Escapes come out literally and are never expanded a second time (asserted on the nose).
func TestCorpusEscapes(t *testing.T) {
	ev.SkipIfReplayingOther(t)
	src := "steps:\n  - command: \"$$A \\\\$A $${A} $B $C\"\n    label: \"$$A\"\n    env: {\"K$$A\": \"$$A\"}\n    agents: {\"q$$A\": [\"$$A\", {\"n$$A\": \"\\\\$A\"}]}\n"
	p, err := pipeline.Parse(strings.NewReader(src))
	if err != nil {
		t.Fatal(err)
	}
	if err := p.Interpolate(envx.New(false, envValues), false); err != nil {
		t.Fatal(err)
	}
	cs := p.Steps[0].(*pipeline.CommandStep)
	if cs.Command != "$A $A ${A} $A $$A and ${HOME}" {
		t.Fatalf("command = %q", cs.Command)
	}
	if cs.Label != "$A" || cs.Env["K$A"] != "$A" {
		t.Fatalf("label %q env %v", cs.Label, cs.Env)
	}
	want, _ := gt.FromJSON([]byte(`{"q$A": ["$A", {"n$A": "$A"}]}`))
	if d := gt.Diff(want, canon.Value(cs.RemainingFields["agents"]), gt.Opt{}); d != "" {
		t.Fatalf("agents: %s", d)
	}
	_ = errors.New
}

// ---------------------------------------------------------------------------
// With a pipeline env block: the block is folded top to bottom (C10 decides its details), and every
// other string equals the single-pass expansion under the environment in force AFTER the block -
// whatever texts the block and the rest of the pipeline have in common.

var recBlock = ev.New("TestPropEnvBlockThenRest", "pipelines with a top-level env block of 1-6 entries (literal names V1..V4, A, HOME; values from a per-case pool of 4-9 templates) and steps / plugin configs / unknown fields / groups / top-level extras whose strings - keys and values - are drawn from the SAME small pool, so that the same text occurs before and after the entry that (re)defines a variable it mentions (forward references, redefinitions, runtime overlaps with and without runtime precedence); oracle = in-order fold of the block (each value expanded under caller env + earlier entries, runtime precedence honoured) then interpolate.Interpolate under the resulting environment applied string by string to an object-model walk; non-trivial = some text that mentions a block variable occurs both in or before the defining entry and after it; distinct by hash of the document")

func TestPropEnvBlockThenRest(t *testing.T) {
	blockNames := []string{"V1", "V2", "V3", "V4", "A", "HOME"}
	ev.Check(t, 1500, 20000, func(t *rapid.T) {
		st := &tstats{}
		// the pool of texts shared by the env block and the rest of the pipeline
		np := rapid.IntRange(4, 9).Draw(t, "npool")
		var pool []string
		seen := map[string]bool{}
		for len(pool) < np {
			var s string
			switch rapid.IntRange(0, 5).Draw(t, "poolkind") {
			case 0, 1, 2:
				v := rapid.SampledFrom(blockNames).Draw(t, "pv")
				s = fmt.Sprintf(rapid.SampledFrom([]string{"$%s", "${%s}", "img:${%s}", "${%s:-none}", "${%s-d}", "x-$%s-y", "$$%s", "${%s:1:2}"}).Draw(t, "pform"), v)
			case 3:
				s = rapid.SampledFrom(pureRefs).Draw(t, "ppure")
			default:
				s = template(t, "pool", st)
			}
			if strings.Contains(s, "${UNSET1?}") || strings.Contains(s, "$(") || strings.HasSuffix(s, "${") || strings.HasSuffix(s, "${A") {
				continue // failing forms are the main test's business
			}
			if _, err := interpolate.Interpolate(envx.New(false, envValues), s); err != nil {
				continue
			}
			if !seen[s] {
				seen[s] = true
				pool = append(pool, s)
			}
		}
		pick := func(label string) string { return rapid.SampledFrom(pool).Draw(t, label) }
		distinct := func(label string, n int) []string {
			perm := rapid.Permutation(pool).Draw(t, label)
			return perm[:min(n, len(perm))]
		}
		q := func(s string) string { b, _ := json.Marshal(s); return string(b) }
		obj := func(keys []string, val func(i int) string) string {
			parts := make([]string, len(keys))
			for i, k := range keys {
				parts[i] = q(k) + ": " + val(i)
			}
			return "{" + strings.Join(parts, ", ") + "}"
		}
		// env block
		nb := rapid.IntRange(1, 6).Draw(t, "nblock")
		names := rapid.Permutation(blockNames).Draw(t, "bnames")[:nb]
		type ent struct{ k, v string }
		var block []ent
		written := make([]string, len(names))
		for i, n := range names {
			// one name in four is built by expansion - onto a variable the block alone defines (V1..V4) or onto
			// one the caller's environment already holds (A, HOME)
			written[i] = n
			if rapid.IntRange(0, 3).Draw(t, "builtname") == 0 {
				switch {
				case n == "HOME":
					written[i] = "${NAMEOF}"
				case n == "A":
					written[i] = "$NAMEA"
				default:
					written[i] = "${PFX}" + n[1:]
				}
				recBlock.Class("name-built-by-expansion")
			}
			block = append(block, ent{n, pick("bval")})
		}
		var b strings.Builder
		b.WriteString("{\"env\": " + obj(written, func(i int) string { return q(block[i].v) }))
		// steps
		b.WriteString(", \"steps\": [")
		ns := rapid.IntRange(1, 4).Draw(t, "nsteps")
		for i := 0; i < ns; i++ {
			if i > 0 {
				b.WriteString(", ")
			}
			switch rapid.IntRange(0, 5).Draw(t, "skind") {
			case 0:
				b.WriteString(`"wait"`)
			case 1:
				b.WriteString(`{"group": ` + q(pick("g")) + `, "steps": [{"command": ` + q(pick("gc")) + `, "label": ` + q(pick("gl")) + `}]}`)
			case 2:
				b.WriteString(`{"trigger": ` + q(pick("tr")) + `, "build": ` + obj(distinct("tbk", 2), func(int) string { return q(pick("tbv")) }) + `}`)
			default:
				ek := distinct("envk", rapid.IntRange(0, 2).Draw(t, "nenv"))
				ck := distinct("cfgk", rapid.IntRange(0, 3).Draw(t, "ncfg"))
				ak := distinct("agk", rapid.IntRange(0, 3).Draw(t, "nag"))
				b.WriteString(`{"command": ` + q(pick("cmd")) + `, "label": ` + q(pick("lbl")) +
					`, "env": ` + obj(ek, func(int) string { return q(pick("envv")) }) +
					`, "plugins": [{` + q("plug#"+pick("src")) + `: ` + obj(ck, func(int) string { return q(pick("cfgv")) }) + `}]` +
					`, "agents": ` + obj(ak, func(int) string { return "[" + q(pick("agv")) + ", " + q(pick("agv2")) + "]" }) + `}`)
			}
		}
		b.WriteString("]")
		xk := distinct("xk", rapid.IntRange(0, 2).Draw(t, "nx"))
		if len(xk) > 0 {
			b.WriteString(`, "x-extra": ` + obj(xk, func(int) string { return q(pick("xv")) }))
		}
		b.WriteString("}")
		text := b.String()
		prefer := rapid.Bool().Draw(t, "prefer")

		p, err := pipeline.Parse(strings.NewReader(text))
		if err != nil {
			t.Fatalf("Parse: %v\n%s", err, text)
		}
		before := canon.Pipeline(p, canon.Raw)
		// model: fold the block, then expand the rest
		env := envx.New(false, envValues)
		wantBlock := gt.MapN(true)
		for _, e := range block {
			v, ierr := interpolate.Interpolate(env, e.v)
			if ierr != nil {
				t.Fatalf("harness: pool text %q fails under the evolving environment: %v", e.v, ierr)
			}
			wantBlock.Put(e.k, gt.StrN(v))
			if _, exists := env.Get(e.k); !(prefer && exists) {
				env.Set(e.k, v)
			}
		}
		rest := before.Clone()
		rest.Del("env")
		var wantErr error
		want := expandTree(rest, env, &wantErr, false)
		if wantErr != nil {
			recBlock.Excluded("a pool text fails to expand once the block has defined its variables")
			return
		}
		if dupKeys(want) {
			recBlock.Excluded("expanded keys collide within one mapping")
			return
		}
		callerEnv := envx.New(false, envValues)
		if ierr := p.Interpolate(callerEnv, prefer); ierr != nil {
			t.Fatalf("Interpolate returned %v, but every string expands without error\nprefer=%v\n%s", ierr, prefer, text)
		}
		after := canon.Pipeline(p, canon.Raw)
		gotBlock, _ := after.Get("env")
		if d := gt.Diff(wantBlock, gotBlock, gt.Opt{}); d != "" {
			t.Fatalf("env block after interpolation differs from the in-order fold: %s\nprefer=%v\n%s", d, prefer, text)
		}
		after.Del("env")
		if d := gt.Diff(want, after, gt.Opt{}); d != "" {
			t.Fatalf("after interpolation the pipeline differs from the single-pass expansion of every string under the environment left by the env block: %s\nprefer=%v\n%s", d, prefer, text)
		}
		// non-trivial: a text mentioning block variable X is used in the block at or before X's entry and again after it
		nt := false
		for i, e := range block {
			for j := i; j < len(block); j++ {
				if strings.Contains(e.v, block[j].k) && strings.Contains(e.v, "$") {
					for _, later := range block[j+1:] {
						if later.v == e.v {
							nt = true
						}
					}
					if strings.Count(text, q(e.v)) > 1 {
						nt = true
					}
				}
			}
		}
		recBlock.Case(ev.HashStr(text), nt, fmt.Sprintf("prefer=%v", prefer), fmt.Sprintf("block=%d", len(block)))
		recBlock.MaybeSample(nt, func() any { return map[string]any{"document": text, "prefer": prefer} })
	})
}
