// C10 - pipeline env block: definition order, runtime precedence, export to the caller.
package c10

import (
	"encoding/json"
	"fmt"
	"reflect"
	"strings"
	"testing"

	pipeline "github.com/buildkite/go-pipeline"
	"github.com/buildkite/go-pipeline/ordered"
	"github.com/buildkite/interpolate"
	"pgregory.net/rapid"

	"verif/harness/internal/envx"
	"verif/harness/internal/ev"
)

func TestMain(m *testing.M) { ev.Main(m) }

type entry struct {
	K, V string
	uid  int
}

// foldModel is the reference: an in-order fold over a list of pairs with the
// ordered-dictionary rename semantics, feeding results into env.
func foldModel(block []entry, env *envx.Env, prefer bool) (out []entry, errAt int, err error) {
	block = append([]entry{}, block...)
	for i := 0; i < len(block); {
		e := block[i]
		k, err := interpolate.Interpolate(env, e.K)
		if err != nil {
			return block, e.uid, err
		}
		v, err := interpolate.Interpolate(env, e.V)
		if err != nil {
			return block, e.uid, err
		}
		if k != e.K {
			// rename in place; any other entry of that name is dropped
			for j := range block {
				if j != i && block[j].K == k {
					block = append(block[:j:j], block[j+1:]...)
					if j < i {
						i--
					}
					break
				}
			}
		}
		block[i].K, block[i].V = k, v
		if _, exists := env.Get(k); !(prefer && exists) {
			env.Set(k, v)
		}
		i++
	}
	return block, -1, nil
}

// (names are whatever strings the block uses as keys: "opt=level" or "my var" cannot be referenced
// as $NAME, but they are entries like any other - rewritten, recorded, written back to the caller)
var names = []string{"A", "B", "C", "D", "a", "b", "R1", "R2", "r1", "PATH", "UNSET", "opt=level", "my var", "x.y", "1ST", "é",
	// names a real job environment holds
	"BUILDKITE_BUILD_PATH", "BUILDKITE_SHELL", "BUILDKITE_AGENT_ACCESS_TOKEN", "BUILDKITE_BRANCH", "BUILDKITE_PLUGINS_ENABLED", "HOME", "CI", "LD_PRELOAD"}

type gstats struct{ fwd, chain, overlapPrefer, caseOnly, dynName, tombstones bool }

// template generates a name or value template over literals and references.
func template(t *rapid.T, label string, earlier, later []string, st *gstats, isName bool) string {
	n := rapid.IntRange(1, 3).Draw(t, label+"n")
	var b strings.Builder
	for i := 0; i < n; i++ {
		switch k := rapid.IntRange(0, 11).Draw(t, label+"seg"); {
		case k < 3:
			b.WriteString(rapid.SampledFrom([]string{"lit", "x", "_", "1", "/bin", "v"}).Draw(t, "lit"))
		case k < 6 && len(earlier) > 0:
			v := rapid.SampledFrom(earlier).Draw(t, "earlier")
			b.WriteString(rapid.SampledFrom([]string{"$%s", "${%s}", "${%s:-dflt}", "${%s-d}"}).Draw(t, "form"))
			s := b.String()
			b.Reset()
			b.WriteString(fmt.Sprintf(s, v))
			st.chain = true
		case k == 6 && len(later) > 0:
			v := rapid.SampledFrom(later).Draw(t, "later")
			fmt.Fprintf(&b, "${%s}", v)
			st.fwd = true
		case k == 7:
			fmt.Fprintf(&b, "${%s}", rapid.SampledFrom([]string{"R1", "R2", "r1", "PATH", "NL", "CRLF"}).Draw(t, "rt"))
		case k == 8:
			b.WriteString(rapid.SampledFrom([]string{"$$A", "\\$A", "$${B}", "$$", "$(", "$", "\\$5", "\\$", "^(a|b)\\$", "\\$ x", "$$5", "\\$\\$"}).Draw(t, "esc"))
		case k == 9:
			fmt.Fprintf(&b, "${%s:-%s}", rapid.SampledFrom(names).Draw(t, "dv"), "d")
		case k == 10 && rapid.IntRange(0, 9).Draw(t, "rarefail") == 0:
			b.WriteString("${UNSET?}")
		default:
			b.WriteString(rapid.SampledFrom(names).Draw(t, "plainname"))
		}
	}
	return b.String()
}

var rec = ev.New("TestPropEnvBlock", "env blocks of 0-12 entries whose names and values are templates over literals, references to runtime variables, earlier entries (chains), later entries (forward references), names built by expansion, escapes, defaults and rare failing ${X?}; x preferRuntimeEnv x caller env in {case-sensitive, case-folding, recording, nil}; steps referencing block and runtime variables; reference = in-order fold with ordered-dictionary renames over the harness env using interpolate.Interpolate as the expansion function; non-trivial = chain of >= 3 dependent entries, or a forward reference, or an overlap with the runtime env under prefer=true, or a case-only name difference under the folding env; distinct by hash of (block, env, flags)")

func TestPropEnvBlock(t *testing.T) {
	ev.Check(t, 30000, 1000000, func(t *rapid.T) {
		st := &gstats{}
		n := rapid.IntRange(0, 12).Draw(t, "n")
		longBlock := rapid.IntRange(0, 29).Draw(t, "longblock") == 0
		if longBlock {
			n = rapid.IntRange(65, 90).Draw(t, "nlong")
		}
		// plan the literal names first so templates can reference earlier / later ones
		planned := make([]string, n)
		for i := range planned {
			planned[i] = rapid.SampledFrom(names).Draw(t, "name")
		}
		var block []entry
		used := map[string]bool{}
		chainLen := 0
		// collision-heavy mode: many entries whose names expand (through runtime variables) to a few
		// names that also occur literally, so renames keep displacing earlier and later entries
		collisionMode := rapid.IntRange(0, 4).Draw(t, "collisionmode") == 0
		collisionRuntime := map[string]string{}
		if collisionMode {
			pool := []string{"$X1", "$X2", "${X3}", "$X4", "$X5", "$Y", "A", "B", "C"}
			pool = rapid.Permutation(pool).Draw(t, "cpool")
			cn := rapid.IntRange(4, len(pool)).Draw(t, "cn")
			for i := 0; i < cn; i++ {
				block = append(block, entry{K: pool[i], V: fmt.Sprintf("v%d", i), uid: i})
			}
			for _, x := range []string{"X1", "X2", "X3", "X4", "X5", "Y"} {
				collisionRuntime[x] = rapid.SampledFrom([]string{"A", "A", "B", "C"}).Draw(t, "xto")
			}
			n = 0
			st.dynName = true
		}
		for i := 0; i < n; i++ {
			k := planned[i]
			if longBlock {
				k = fmt.Sprintf("%s_%d", k, i) // enough distinct names for a long block
			}
			if rapid.IntRange(0, 5).Draw(t, "dyn") == 0 {
				k = template(t, "k", planned[:i], planned[i+1:], &gstats{}, true)
				st.dynName = true
			}
			if used[k] {
				continue // an ordered map holds each key once
			}
			used[k] = true
			lst := &gstats{}
			v := template(t, "v", planned[:i], planned[i+1:], lst, false)
			if lst.chain {
				chainLen++
			}
			st.fwd = st.fwd || lst.fwd
			block = append(block, entry{K: k, V: v, uid: i})
		}
		prefer := rapid.Bool().Draw(t, "prefer")
		envKind := rapid.IntRange(0, 3).Draw(t, "envkind") // 0 sensitive, 1 folding, 2 recording(sensitive), 3 nil
		runtime := map[string]string{}
		for _, k := range []string{"R1", "R2", "r1", "PATH", "A", "b", "BUILDKITE_BUILD_PATH", "BUILDKITE_SHELL", "BUILDKITE_AGENT_ACCESS_TOKEN", "BUILDKITE_BRANCH", "HOME", "CI"} {
			if rapid.IntRange(0, 2).Draw(t, "has"+k) > 0 {
				runtime[k] = "rt-" + k + rapid.SampledFrom([]string{"", "$$X", " v"}).Draw(t, "rv")
				if rapid.IntRange(0, 4).Draw(t, "emptyrt") == 0 {
					// present, and empty: still present
					runtime[k] = ""
				}
			}
		}
		for k, v := range collisionRuntime {
			runtime[k] = v
		}
		// values that end in a line terminator (a block scalar, a CRLF upload): a name built from one is a
		// different name from the one without it
		if rapid.Bool().Draw(t, "hasNL") {
			runtime["NL"] = "prod\n"
			runtime["CRLF"] = "R1\r\n"
		}
		if envKind == 3 {
			runtime = map[string]string{}
		}
		fold := envKind == 1
		for _, e := range block {
			if _, ok := runtime[e.K]; ok && prefer {
				st.overlapPrefer = true
			}
			if fold {
				for _, f := range block {
					if e.K != f.K && strings.EqualFold(e.K, f.K) {
						st.caseOnly = true
					}
				}
				for rk := range runtime {
					if e.K != rk && strings.EqualFold(e.K, rk) {
						st.caseOnly = true
					}
				}
			}
		}

		// the pipeline
		p := &pipeline.Pipeline{}
		if len(block) > 0 || rapid.Bool().Draw(t, "envnonnil") {
			p.Env = ordered.NewMap[string, string](len(block))
			// the block may carry deleted slots (entries removed before interpolation)
			var dummies []string
			for i, e := range block {
				if rapid.IntRange(0, 3).Draw(t, "tombstone") == 0 {
					d := fmt.Sprintf("\x00removed-%d", i)
					p.Env.Set(d, "$A")
					dummies = append(dummies, d)
				}
				p.Env.Set(e.K, e.V)
			}
			for _, d := range dummies {
				p.Env.Delete(d)
			}
			if len(dummies) > 0 {
				st.tombstones = true
			}
		}
		stepStrs := []string{}
		ns := rapid.IntRange(0, 3).Draw(t, "nsteps")
		for i := 0; i < ns; i++ {
			cmd := template(t, "cmd", names, nil, &gstats{}, false)
			lbl := template(t, "lbl", names, nil, &gstats{}, false)
			ev1 := template(t, "sev", names, nil, &gstats{}, false)
			stepStrs = append(stepStrs, cmd, lbl, ev1)
			p.Steps = append(p.Steps, &pipeline.CommandStep{Command: cmd, Label: lbl, Env: map[string]string{"STEPVAR": ev1}})
		}
		// another top-level field most of the time; without it and without steps the pipeline is nothing but
		// its env block - which is processed all the same (rewritten, written back to the caller)
		hasNote := rapid.IntRange(0, 3).Draw(t, "hasnote") != 0
		if hasNote {
			p.RemainingFields = map[string]any{"note": "${A}-${R1}"}
			stepStrs = append(stepStrs, "${A}-${R1}")
		} else if ns == 0 {
			rec.Class("pipeline-is-only-an-env-block")
		}

		// the model
		menv := envx.New(fold, runtime)
		wantBlock, _, wantErr := foldModel(block, menv, prefer)

		// the real call
		var caller *envx.Env
		var ienv pipeline.InterpolationEnv
		if envKind != 3 {
			caller = envx.New(fold, runtime)
			caller.Record = envKind == 2
			ienv = caller
		}
		var gotErr error
		func() {
			defer func() {
				if r := recover(); r != nil {
					gotErr = fmt.Errorf("PANIC: %v", r)
				}
			}()
			gotErr = p.Interpolate(ienv, prefer)
		}()
		desc := func() string {
			j, _ := json.Marshal(map[string]any{"block": showBlock(block), "runtime": runtime, "prefer": prefer, "envkind": envKind})
			return string(j)
		}
		if gotErr != nil && strings.HasPrefix(gotErr.Error(), "PANIC") {
			t.Fatalf("%v\n%s", gotErr, desc())
		}
		if wantErr != nil {
			if gotErr == nil {
				t.Fatalf("expansion of an env block entry fails in the model (%v) but Interpolate returned nil\n%s", wantErr, desc())
			}
		} else {
			// step strings may still fail
			var stepErr error
			var wantStrs []string
			for _, s := range stepStrs {
				w, err := interpolate.Interpolate(menv, s)
				if err != nil {
					stepErr = err
				}
				wantStrs = append(wantStrs, w)
			}
			if stepErr != nil {
				if gotErr == nil {
					t.Fatalf("a step string fails to expand (%v) but Interpolate returned nil\n%s", stepErr, desc())
				}
			} else {
				if gotErr != nil {
					t.Fatalf("Interpolate returned %v, model succeeds\n%s", gotErr, desc())
				}
				// block order and contents
				var got []entry
				p.Env.Range(func(k, v string) error { got = append(got, entry{K: k, V: v}); return nil })
				if len(got) != len(wantBlock) {
					t.Fatalf("env block has %d entries %v, model %d %v\n%s", len(got), showBlock(got), len(wantBlock), showBlock(wantBlock), desc())
				}
				for i := range got {
					if got[i].K != wantBlock[i].K || got[i].V != wantBlock[i].V {
						t.Fatalf("env block entry %d = %s=%q, model %s=%q\nblock %v\nmodel %v\n%s", i, got[i].K, got[i].V, wantBlock[i].K, wantBlock[i].V, showBlock(got), showBlock(wantBlock), desc())
					}
				}
				if p.Env.Len() != len(wantBlock) {
					t.Fatalf("env block Len %d, model %d", p.Env.Len(), len(wantBlock))
				}
				// caller env
				if caller != nil {
					if !reflect.DeepEqual(caller.Snapshot(), menv.Snapshot()) {
						t.Fatalf("caller env after Interpolate = %v, model %v\n%s", caller.Snapshot(), menv.Snapshot(), desc())
					}
					if caller.Record && prefer {
						for _, s := range caller.Sets {
							if _, was := runtime[s]; was {
								t.Fatalf("runtime variable %q was overwritten (Set called) although preferRuntimeEnv is set\nlog: %v\n%s", s, caller.Log, desc())
							}
						}
					}
				}
				// step strings
				idx := 0
				for _, s := range p.Steps {
					cs := s.(*pipeline.CommandStep)
					for _, g := range []string{cs.Command, cs.Label, cs.Env["STEPVAR"]} {
						if g != wantStrs[idx] {
							t.Fatalf("step string %q expanded to %q, model %q\n%s", stepStrs[idx], g, wantStrs[idx], desc())
						}
						idx++
					}
				}
				if hasNote {
					if g := p.RemainingFields["note"]; g != wantStrs[idx] {
						t.Fatalf("top-level string expanded to %q, model %q\n%s", g, wantStrs[idx], desc())
					}
				}
			}
		}
		nt := chainLen >= 3 || st.fwd || st.overlapPrefer || st.caseOnly
		cls := []string{fmt.Sprintf("envkind=%d", envKind), fmt.Sprintf("prefer=%v", prefer)}
		if wantErr != nil {
			cls = append(cls, "block-error")
		}
		if st.fwd {
			cls = append(cls, "forward-ref")
		}
		if st.overlapPrefer {
			cls = append(cls, "overlap-prefer")
		}
		if st.caseOnly {
			cls = append(cls, "case-only")
		}
		if chainLen >= 3 {
			cls = append(cls, "chain>=3")
		}
		if st.tombstones {
			cls = append(cls, "block-with-deleted-slots")
		}
		if collisionMode {
			cls = append(cls, "collision-heavy")
		}
		if longBlock {
			cls = append(cls, "block>64")
		}
		if len(wantBlock) < len(block) && wantErr == nil {
			cls = append(cls, "rename-collision")
		}
		rec.Case(ev.HashStr(desc()), nt, cls...)
		rec.MaybeSample(nt, func() any {
			return map[string]any{"block": showBlock(block), "runtime": runtime, "prefer": prefer, "envkind": envKind, "result": showBlock(wantBlock)}
		})
	})
}

func showBlock(b []entry) []string {
	out := []string{}
	for _, e := range b {
		out = append(out, e.K+"="+e.V)
	}
	return out
}
