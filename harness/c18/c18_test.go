// C18 - only approved asymmetric key/algorithm pairs pass key validation.
package c18

import (
	"context"
	"crypto"
	"crypto/ecdsa"
	"crypto/ed25519"
	"crypto/elliptic"
	"crypto/rand"
	"crypto/rsa"
	_ "embed"
	"encoding/base64"
	"encoding/hex"
	"encoding/json"
	"fmt"
	"os"
	"path/filepath"
	"sort"
	"strings"
	"sync"
	"testing"

	pipeline "github.com/buildkite/go-pipeline"
	"github.com/buildkite/go-pipeline/jwkutil"
	"github.com/buildkite/go-pipeline/signature"
	"github.com/lestrrat-go/jwx/v2/jwa"
	"github.com/lestrrat-go/jwx/v2/jwk"
	"pgregory.net/rapid"

	"verif/harness/internal/ev"
	"verif/harness/internal/keys"
)

func TestMain(m *testing.M) { ev.Main(m) }

type material struct {
	Name string
	Kty  string // RSA, EC, OKP, oct
	Raw  any
}

var (
	matOnce sync.Once
	mats    []material
)

func materials() []material {
	matOnce.Do(func() {
		r, err := rsa.GenerateKey(rand.Reader, 2048)
		must(err)
		mats = append(mats, material{"RSA-2048", "RSA", r})
		for _, c := range []struct {
			n string
			c elliptic.Curve
		}{{"EC-P256", elliptic.P256()}, {"EC-P384", elliptic.P384()}, {"EC-P521", elliptic.P521()}} {
			k, err := ecdsa.GenerateKey(c.c, rand.Reader)
			must(err)
			mats = append(mats, material{c.n, "EC", k})
		}
		_, ed, err := ed25519.GenerateKey(rand.Reader)
		must(err)
		mats = append(mats, material{"OKP-Ed25519", "OKP", ed})
		oct := make([]byte, 64)
		rand.Read(oct)
		mats = append(mats, material{"oct-64", "oct", oct})
	})
	return mats
}

func must(err error) {
	if err != nil {
		panic(err)
	}
}

// algorithm names: every signature, key-encryption and content-encryption
// algorithm the JOSE library registers, plus none-by-omission and unknown names.
func algNames() []string {
	seen := map[string]bool{}
	var out []string
	add := func(s string) {
		if !seen[s] {
			seen[s] = true
			out = append(out, s)
		}
	}
	for _, a := range jwa.SignatureAlgorithms() {
		add(a.String())
	}
	for _, a := range jwa.KeyEncryptionAlgorithms() {
		add(a.String())
	}
	for _, a := range jwa.ContentEncryptionAlgorithms() {
		add(a.String())
	}
	add("none")
	add("bogus")
	add("es512") // wrong case
	add("PS512 ")
	add("")
	sort.Strings(out)
	return out
}

var approved = map[string]string{"RSA": "PS512", "EC": "ES512", "OKP": "EdDSA"}

type row struct {
	Material string `json:"material"`
	Public   bool   `json:"public"`
	Alg      string `json:"alg"`
	AlgSet   bool   `json:"alg_set"`
	ViaJSON  bool   `json:"via_json"`
	Broken   bool   `json:"broken"` // structurally invalid key (required member missing)
}

func (r row) expectAccept(kty string) bool {
	return !r.Broken && r.AlgSet && approved[kty] == r.Alg && r.Alg != ""
}

func buildKey(r row) (jwk.Key, string, error) {
	var m material
	for _, x := range materials() {
		if x.Name == r.Material {
			m = x
		}
	}
	var k jwk.Key
	var err error
	k, err = jwk.FromRaw(m.Raw)
	if err != nil {
		return nil, m.Kty, err
	}
	if (r.Public || r.Broken) && m.Kty != "oct" {
		k, err = jwk.PublicKeyOf(k)
		if err != nil {
			return nil, m.Kty, err
		}
	}
	if r.Broken {
		// structurally invalid: drop a required member
		member := map[string]string{"RSA": jwk.RSANKey, "EC": jwk.ECDSAXKey, "OKP": jwk.OKPXKey, "oct": jwk.SymmetricOctetsKey}[m.Kty]
		if err := k.Remove(member); err != nil {
			return nil, m.Kty, err
		}
	}
	must(k.Set(jwk.KeyIDKey, "kid"))
	if r.AlgSet {
		if err := k.Set(jwk.AlgorithmKey, r.Alg); err != nil {
			return nil, m.Kty, fmt.Errorf("cannot set alg: %w", err)
		}
	}
	if r.ViaJSON {
		b, err := json.Marshal(k)
		if err != nil {
			return nil, m.Kty, err
		}
		k2, err := jwk.ParseKey(b)
		if err != nil {
			return nil, m.Kty, fmt.Errorf("ParseKey: %w", err)
		}
		k = k2
	}
	return k, m.Kty, nil
}

var recTable = ev.New("TestExhaustiveValidateTable", "every (key material in RSA-2048, EC P-256/P-384/P-521, OKP Ed25519, oct) x (private, public) x (every signature, key-encryption and content-encryption algorithm registered by jwx, none, unknown names, wrong-case names, unset) x (programmatic, via JSON) plus structurally empty keys with approved algorithms; accept <=> valid and alg set and (kty,alg) in {RSA+PS512, EC+ES512, OKP+EdDSA}; non-trivial = row on the accept/reject boundary (approved algorithm with another key type, or approved key type with another signature algorithm); distinct by construction")

func TestExhaustiveValidateTable(t *testing.T) {
	var rr row
	replay := ev.ReplayCase(t.Name(), &rr)
	if !replay {
		ev.SkipIfReplayingOther(t)
	}
	sigAlgs := map[string]bool{}
	for _, a := range jwa.SignatureAlgorithms() {
		sigAlgs[a.String()] = true
	}
	check := func(r row) {
		k, kty, err := buildKey(r)
		if err != nil {
			// the JOSE library itself refused to build such a key: nothing to validate
			recTable.Excluded("jose-library-refused-construction")
			return
		}
		verr := jwkutil.Validate(k)
		want := r.expectAccept(kty)
		if (verr == nil) != want {
			ev.FailCase(t, r, "Validate(%s %s alg=%q set=%v broken=%v viaJSON=%v) = %v, want accept=%v", kty, r.Material, r.Alg, r.AlgSet, r.Broken, r.ViaJSON, verr, want)
		}
		boundary := false
		for _, a := range approved {
			if r.Alg == a && approved[kty] != a {
				boundary = true
			}
		}
		if approved[kty] != "" && sigAlgs[r.Alg] && r.Alg != approved[kty] {
			boundary = true
		}
		recTable.Case(ev.Hash(r), boundary, fmt.Sprintf("accept=%v", want), "kty="+kty)
		recTable.MaybeSample(boundary, func() any { return map[string]any{"row": r, "accepted": verr == nil} })
	}
	if replay {
		check(rr)
		return
	}
	for _, m := range materials() {
		for _, pub := range []bool{false, true} {
			for _, viaJSON := range []bool{false, true} {
				for _, alg := range algNames() {
					if alg == "" {
						check(row{Material: m.Name, Public: pub, AlgSet: false, ViaJSON: viaJSON})
						continue
					}
					check(row{Material: m.Name, Public: pub, Alg: alg, AlgSet: true, ViaJSON: viaJSON})
				}
			}
		}
		for _, alg := range []string{"PS512", "ES512", "EdDSA"} {
			check(row{Material: m.Name, Alg: alg, AlgSet: true, Broken: true})
		}
	}
	recTable.Exhaustive()
}

// Generated keys validate; sign/verify succeeds exactly for the matching pair.
var recCross = ev.New("TestSignVerifyCrossTable", "every private key of the pool (2xEdDSA, 2xES512, 2xPS512 from jwkutil.NewKeyPair, same kid within a kind) signs a step; verification is attempted against every public key set of the pool: success <=> same pair; both halves of every generated pair pass Validate; non-trivial = verification attempted with a different key of the same kind and kid; distinct by (signer, verifier)")

func TestSignVerifyCrossTable(t *testing.T) {
	ev.SkipIfReplayingOther(t)
	ctx := context.Background()
	pool := keys.Pool()
	step := &signature.CommandStepWithInvariants{CommandStep: pipeline.CommandStep{Command: "echo hi", Env: map[string]string{"A": "1"}}, RepositoryURL: "git@example.org:o/r.git"}
	for _, p := range pool {
		if p.PrivSet != nil {
			for _, set := range []jwk.Set{p.PrivSet, p.PubSet} {
				k, _ := set.Key(0)
				if err := jwkutil.Validate(k); err != nil {
					t.Fatalf("generated %s key does not validate: %v", p.Name, err)
				}
			}
		}
		sig, err := signature.Sign(ctx, p.Priv, step)
		if err != nil {
			t.Fatalf("Sign with %s: %v", p.Name, err)
		}
		for _, q := range pool {
			verr := signature.Verify(ctx, sig, q.Pub, step)
			same := p.Name == q.Name
			if (verr == nil) != same {
				ev.FailCase(t, map[string]string{"signer": p.Name, "verifier": q.Name}, "signed with %s, verified with %s: err=%v, want success=%v", p.Name, q.Name, verr, same)
			}
			nt := !same && p.Kind == q.Kind
			recCross.Case(ev.Hash(p.Name, q.Name), nt, fmt.Sprintf("same=%v", same))
			recCross.MaybeSample(nt, func() any { return map[string]any{"signer": p.Name, "verifier": q.Name, "verified": verr == nil} })
		}
	}
	recCross.Exhaustive()
}

// ---------------------------------------------------------------------------
// LoadKey over generated key-set files

type fileKey struct {
	JSON  json.RawMessage
	Kid   string
	Valid bool
	Thumb string
}

var (
	fkOnce sync.Once
	fks    []fileKey
)

func fileKeys() []fileKey {
	fkOnce.Do(func() {
		add := func(k jwk.Key, valid bool) {
			b, err := json.Marshal(k)
			must(err)
			tp, err := k.Thumbprint(crypto.SHA256)
			must(err)
			fks = append(fks, fileKey{JSON: b, Kid: k.KeyID(), Valid: valid, Thumb: fmt.Sprintf("%x", tp)})
		}
		for i, p := range keys.Pool() {
			if p.PrivSet == nil {
				continue
			}
			k, _ := p.PrivSet.Key(0)
			k, _ = k.Clone()
			must(k.Set(jwk.KeyIDKey, fmt.Sprintf("good-%d", i)))
			add(k, true)
			if i%2 == 0 {
				pk, _ := p.PubSet.Key(0)
				pk, _ = pk.Clone()
				must(pk.Set(jwk.KeyIDKey, fmt.Sprintf("goodpub-%d", i)))
				add(pk, true)
			}
		}
		// valid keys that carry other optional members: `use` is not part of the acceptance rule, so a key
		// marked "enc" (or without use) counts like any other key of the set
		for i, p := range keys.Pool() {
			if p.PrivSet == nil || i%2 == 1 {
				continue
			}
			k, _ := p.PubSet.Key(0)
			k, _ = k.Clone()
			must(k.Set(jwk.KeyIDKey, fmt.Sprintf("encuse-%d", i)))
			must(k.Set(jwk.KeyUsageKey, jwk.ForEncryption))
			add(k, true)
		}
		// ... and other optional members of RFC 7517 that the rule does not mention: key_ops (of any
		// content), a certificate thumbprint, a private parameter
		for i, p := range keys.Pool() {
			if p.PrivSet == nil {
				continue
			}
			set := p.PubSet
			if i%2 == 1 {
				set = p.PrivSet
			}
			for j, ops := range []jwk.KeyOperationList{{jwk.KeyOpEncrypt}, {jwk.KeyOpWrapKey, jwk.KeyOpUnwrapKey}, {jwk.KeyOpSign}, {jwk.KeyOpVerify, jwk.KeyOpDecrypt}, {jwk.KeyOpDeriveBits}} {
				if (i+j)%2 == 1 {
					continue
				}
				k, _ := set.Key(0)
				k, _ = k.Clone()
				must(k.Set(jwk.KeyIDKey, fmt.Sprintf("keyops-%d-%d", i, j)))
				must(k.Set(jwk.KeyOpsKey, ops))
				if j%2 == 0 {
					must(k.Set("x-note", "private parameter"))
				}
				add(k, true)
			}
		}
		// OKP keys on the other RFC 8037 curves, as a key-set file may hold them (only the JSON route can
		// build them): the rule speaks of key type and algorithm, and OKP + EdDSA is an approved pair
		for _, c := range []struct {
			crv string
			n   int
		}{{"Ed448", 57}, {"X25519", 32}, {"X448", 56}} {
			x := make([]byte, c.n)
			for i := range x {
				x[i] = byte(i + 1)
			}
			js := fmt.Sprintf(`{"kty":"OKP","crv":"%s","x":"%s","alg":"EdDSA","kid":"okp-%s"}`, c.crv, base64.RawURLEncoding.EncodeToString(x), c.crv)
			k, err := jwk.ParseKey([]byte(js))
			if err != nil || k.Validate() != nil {
				continue // the JOSE library does not take this curve: nothing to say
			}
			add(k, true)
		}
		// RSA keys of other sizes than the 2048 bits the library generates (committed test keys, testdata/):
		// 4096 and 4608 bits, private and public, and the 4096-bit modulus spelled with a leading zero octet
		// (what some big-integer libraries emit; the JOSE library keeps the octets as given). Size is not
		// part of the rule: RSA + PS512 is an approved pair.
		for _, f := range []string{"rsa4096.json", "rsa4608.json"} {
			b := map[string][]byte{"rsa4096.json": rsa4096JSON, "rsa4608.json": rsa4608JSON}[f]
			k, err := jwk.ParseKey(b)
			must(err)
			add(k, true)
			pk, err := jwk.PublicKeyOf(k)
			must(err)
			must(pk.Set(jwk.KeyIDKey, k.KeyID()+"-pub"))
			must(pk.Set(jwk.AlgorithmKey, jwa.PS512))
			add(pk, true)
			if f == "rsa4096.json" {
				var members map[string]any
				must(json.Unmarshal(b, &members))
				raw, err := base64.RawURLEncoding.DecodeString(members["n"].(string))
				must(err)
				pm := map[string]any{"kty": "RSA", "alg": "PS512", "kid": "rsa-4096-leading-zero", "e": members["e"], "n": base64.RawURLEncoding.EncodeToString(append([]byte{0}, raw...))}
				pb, _ := json.Marshal(pm)
				if zk, err := jwk.ParseKey(pb); err == nil && zk.Validate() == nil {
					add(zk, true)
				}
			}
		}
		// valid keys published without a `kid` (a key set exported without ids)
		for i, p := range keys.Pool() {
			if p.PrivSet == nil || i%2 == 0 {
				continue
			}
			for _, set := range []jwk.Set{p.PrivSet, p.PubSet} {
				k, _ := set.Key(0)
				k, _ = k.Clone()
				must(k.Remove(jwk.KeyIDKey))
				add(k, true)
			}
		}
		// invalid ones: HS512 oct, RS256 RSA, no alg, ES256 EC
		oct, _ := jwk.FromRaw([]byte("0123456789abcdef0123456789abcdef"))
		must(oct.Set(jwk.AlgorithmKey, jwa.HS512))
		must(oct.Set(jwk.KeyIDKey, "bad-hs512"))
		add(oct, false)
		for _, m := range materials() {
			switch m.Name {
			case "RSA-2048":
				k, _ := jwk.FromRaw(m.Raw)
				must(k.Set(jwk.AlgorithmKey, jwa.RS256))
				must(k.Set(jwk.KeyIDKey, "bad-rs256"))
				add(k, false)
			case "EC-P256":
				k, _ := jwk.FromRaw(m.Raw)
				must(k.Set(jwk.AlgorithmKey, jwa.ES256))
				must(k.Set(jwk.KeyIDKey, "bad-es256"))
				add(k, false)
			case "OKP-Ed25519":
				k, _ := jwk.FromRaw(m.Raw)
				must(k.Set(jwk.KeyIDKey, "bad-noalg"))
				add(k, false)
				k2, _ := jwk.FromRaw(m.Raw)
				must(k2.Set(jwk.AlgorithmKey, jwa.EdDSA))
				add(k2, true) // valid but kid-less
			}
		}
		// structurally broken keys that DECLARE an approved algorithm: the JSON of a valid key with one
		// member of its key material emptied or shortened. They are kept only when the JOSE library
		// still parses them (so the file as a whole loads) and its own structural check (jwk.Key.Validate,
		// not the library under test) rejects them: jwkutil.Validate must reject them
		// (TestStructurallyBrokenKeysRejected) and loading such a key must fail.
		nbroken := 0
		for i, fk := range append([]fileKey{}, fks...) {
			if !fk.Valid || fk.Kid == "" || !strings.HasPrefix(fk.Kid, "good") {
				continue
			}
			var members map[string]any
			must(json.Unmarshal(fk.JSON, &members))
			for _, field := range []string{"n", "e", "d", "x", "y"} {
				orig, ok := members[field].(string)
				if !ok {
					continue
				}
				for vi, broken := range []string{"", orig[:len(orig)/2]} {
					m2 := map[string]any{}
					for k, v := range members {
						m2[k] = v
					}
					m2[field] = broken
					kid := fmt.Sprintf("broken-%d-%s-%d", i, field, vi)
					m2["kid"] = kid
					b, _ := json.Marshal(m2)
					k, err := jwk.ParseKey(b)
					if err != nil {
						// cannot even be decoded: kept for files that hold such an entry next to good keys
						undecodable = append(undecodable, fileKey{JSON: b, Kid: kid})
						continue
					}
					if k.Validate() == nil {
						continue // the JOSE library's own structural check passes (e.g. a shortened RSA exponent): not broken
					}
					fks = append(fks, fileKey{JSON: b, Kid: kid, Valid: false, Thumb: "-"})
					nbroken++
				}
			}
		}
		// and entries that lack a required member altogether
		for i, fk := range append([]fileKey{}, fks...) {
			if !fk.Valid || !strings.HasPrefix(fk.Kid, "good") {
				continue
			}
			var members map[string]any
			must(json.Unmarshal(fk.JSON, &members))
			for _, field := range []string{"n", "x", "y", "crv"} {
				if _, ok := members[field]; !ok {
					continue
				}
				m2 := map[string]any{}
				for k, v := range members {
					if k != field {
						m2[k] = v
					}
				}
				kid := fmt.Sprintf("lacks-%d-%s", i, field)
				m2["kid"] = kid
				b, _ := json.Marshal(m2)
				if _, err := jwk.ParseKey(b); err != nil {
					undecodable = append(undecodable, fileKey{JSON: b, Kid: kid})
				}
			}
		}
		brokenKeys = nbroken
	})
	return fks
}

var brokenKeys int

//go:embed testdata/rsa4096.json
var rsa4096JSON []byte

//go:embed testdata/rsa4608.json
var rsa4608JSON []byte

var recBroken = ev.New("TestStructurallyBrokenKeysRejected", "every private and public key of the pool with ONE member of its key material (n, e, d, x, y) emptied or halved, declaring its approved algorithm, that the JOSE library still decodes and whose own structural check (jwk.Key.Validate) fails: jwkutil.Validate must reject it - whichever half of the key the defect is in; non-trivial = the defect is in the private member `d`; distinct by construction")

func TestStructurallyBrokenKeysRejected(t *testing.T) {
	ev.SkipIfReplayingOther(t)
	n := 0
	for _, fk := range fileKeys() {
		if !strings.HasPrefix(fk.Kid, "broken-") {
			continue
		}
		k, err := jwk.ParseKey(fk.JSON)
		if err != nil {
			t.Fatalf("harness: %s no longer parses: %v", fk.Kid, err)
		}
		if err := jwkutil.Validate(k); err == nil {
			t.Fatalf("jwkutil.Validate accepts a structurally broken key (the JOSE library's own check says: %v): %s", k.Validate(), fk.JSON)
		}
		private := strings.Contains(fk.Kid, "-d-")
		recBroken.Case(ev.HashStr(fk.Kid), private, fmt.Sprintf("private-member=%v", private))
		n++
	}
	if n == 0 {
		t.Fatalf("harness: no structurally broken key")
	}
	recBroken.Exhaustive()
}

// undecodable: JWK-shaped entries the JOSE library refuses to decode (a required member missing or
// malformed). A key-set file holding one is not a usable key set.
var undecodable []fileKey

var recLoad = ev.New("TestPropLoadKey", "key-set files (JWKS form, or bare-JWK form for singletons) of 0-3 keys with distinct kids drawn from valid keys (private and public EdDSA/ES512/PS512), a valid kid-less key and invalid keys (HS512 oct, RS256, ES256, no alg, and structurally broken keys - one member of the key material emptied or halved - that declare an approved algorithm), x requested id in {\"\", each kid, an absent kid, near misses of each kid (white-space padded, upper-cased, truncated), white space only}, plus unreadable and malformed files; LoadKey must return the key with that id / the only key, else fail; non-trivial = set of >=2 keys, or a selected key that is invalid; distinct by (file content, id)")

func TestPropLoadKey(t *testing.T) {
	all := fileKeys()
	if brokenKeys == 0 {
		t.Fatalf("harness: no structurally broken key survived parsing - the class would be vacuous")
	}
	dir := t.TempDir()
	n := 0
	ev.Check(t, 1500, 60000, func(t *rapid.T) {
		n++
		path := filepath.Join(dir, fmt.Sprintf("k%d.json", n%64))
		mode := rapid.IntRange(0, 19).Draw(t, "mode")
		if mode == 0 {
			// unreadable / malformed
			var err error
			if rapid.Bool().Draw(t, "missing") {
				_, err = jwkutil.LoadKey(filepath.Join(dir, "does-not-exist.json"), "x")
			} else {
				os.WriteFile(path, []byte(rapid.SampledFrom([]string{"", "{", "[]", "not json", `{"keys": 5}`, `{"kty":"nope"}`}).Draw(t, "junk")), 0o600)
				_, err = jwkutil.LoadKey(path, rapid.SampledFrom([]string{"", "x"}).Draw(t, "id"))
			}
			if err == nil {
				t.Fatalf("LoadKey on unreadable/malformed file succeeded")
			}
			recLoad.Case(ev.Hash("junk", n), false, "class=unreadable")
			return
		}
		cnt := rapid.IntRange(0, 3).Draw(t, "n")
		idx := rapid.Permutation(seq(len(all))).Draw(t, "perm")[:cnt]
		var chosen []fileKey
		var raws []json.RawMessage
		for _, i := range idx {
			chosen = append(chosen, all[i])
			raws = append(raws, all[i].JSON)
		}
		// one file in four is made to hold a key without an id
		if cnt >= 1 && rapid.IntRange(0, 3).Draw(t, "kidless") == 0 {
			var kl []fileKey
			for _, fk := range all {
				if fk.Kid == "" && fk.Valid {
					kl = append(kl, fk)
				}
			}
			at := rapid.IntRange(0, cnt-1).Draw(t, "kidlessat")
			chosen[at] = rapid.SampledFrom(kl).Draw(t, "kidlesskey")
			raws[at] = chosen[at].JSON
			recLoad.Class("file-holds-a-key-without-kid")
		}
		// one file in eight also holds an entry that cannot be decoded
		var poison *fileKey
		if len(undecodable) > 0 && cnt >= 1 && rapid.IntRange(0, 7).Draw(t, "poison") == 0 {
			pz := rapid.SampledFrom(undecodable).Draw(t, "undecodable")
			poison = &pz
			at := rapid.IntRange(0, len(raws)).Draw(t, "poisonat")
			raws = append(raws[:at:at], append([]json.RawMessage{pz.JSON}, raws[at:]...)...)
		}
		var content []byte
		bare := poison == nil && cnt == 1 && rapid.Bool().Draw(t, "bare")
		if bare {
			content = raws[0]
		} else {
			if raws == nil {
				raws = []json.RawMessage{}
			}
			content, _ = json.Marshal(map[string]any{"keys": raws})
		}
		must(os.WriteFile(path, content, 0o600))
		var exact []string
		for _, c := range chosen {
			if c.Kid != "" {
				exact = append(exact, c.Kid)
			}
		}
		ids := []string{"absent-kid"}
		// near misses of the ids in the file: padded with white space, other case, a prefix - none of
		// them is the id of a key, so each must fail like any absent id (and never act as "no id")
		for _, c := range chosen {
			if c.Kid != "" {
				ids = append(ids, " "+c.Kid, c.Kid+"\n", c.Kid+" ", strings.ToUpper(c.Kid), c.Kid[:len(c.Kid)-1])
			}
		}
		ids = append(ids, " ", "\n", "\t")
		// the class of request first (no id / an id of the file / anything else), so that the many
		// near misses do not crowd out the first two
		var id string
		// ids derived from a key's material rather than from its `kid`: the RFC 7638 thumbprint in the
		// usual spellings. A key is addressed by its id only - a key without one is reachable as "the only
		// key" and in no other way
		var derived []string
		for _, c := range chosen {
			if raw, err := hex.DecodeString(c.Thumb); err == nil && len(raw) > 0 {
				derived = append(derived, c.Thumb, base64.RawURLEncoding.EncodeToString(raw), base64.URLEncoding.EncodeToString(raw), base64.StdEncoding.EncodeToString(raw), "sha256:"+c.Thumb)
			}
		}
		switch cls := rapid.IntRange(0, 3).Draw(t, "idclass"); {
		case cls == 3 && len(derived) > 0:
			id = rapid.SampledFrom(derived).Draw(t, "derivedid")
			recLoad.Class("id-derived-from-key-material")
		case cls == 0:
			id = ""
		case cls == 1 && len(exact) > 0:
			id = rapid.SampledFrom(exact).Draw(t, "exactid")
		default:
			id = rapid.SampledFrom(ids).Draw(t, "otherid")
		}
		var want *fileKey
		if id == "" {
			if cnt == 1 {
				want = &chosen[0]
			}
		} else {
			for i := range chosen {
				if chosen[i].Kid == id {
					want = &chosen[i]
				}
			}
		}
		if poison != nil {
			// the file holds >= 2 entries, one of them undecodable: asking for "the only key" or for the
			// undecodable entry must fail (asking for a good key by id is left open)
			for _, pid := range []string{"", poison.Kid} {
				if _, perr := jwkutil.LoadKey(path, pid); perr == nil {
					t.Fatalf("LoadKey(id=%q) succeeded on a file of %d entries one of which cannot be decoded: %s", pid, len(raws), content)
				}
			}
			recLoad.Case(ev.Hash(string(content), "poison"), true, "class=undecodable-entry")
			return
		}
		k, err := jwkutil.LoadKey(path, id)
		selInvalid := want != nil && !want.Valid
		if want == nil || !want.Valid {
			if err == nil {
				t.Fatalf("LoadKey(id=%q) on %s succeeded, want failure (selected=%v)", id, content, want != nil)
			}
		} else {
			if err != nil {
				t.Fatalf("LoadKey(id=%q) on %s failed: %v", id, content, err)
			}
			tp, _ := k.Thumbprint(crypto.SHA256)
			if fmt.Sprintf("%x", tp) != want.Thumb || k.KeyID() != want.Kid {
				t.Fatalf("LoadKey(id=%q) returned key kid=%q thumb=%x, want kid=%q thumb=%s", id, k.KeyID(), tp, want.Kid, want.Thumb)
			}
		}
		if want != nil && strings.HasPrefix(want.Kid, "broken-") {
			recLoad.Class("selected-key-structurally-broken")
		}
		nt := cnt >= 2 || selInvalid
		recLoad.Case(ev.Hash(string(content), id), nt, fmt.Sprintf("keys=%d", cnt), fmt.Sprintf("ok=%v", err == nil))
		recLoad.MaybeSample(nt, func() any {
			kids := []string{}
			for _, c := range chosen {
				kids = append(kids, c.Kid)
			}
			return map[string]any{"kids": kids, "requested": id, "bare_jwk": bare, "loaded": err == nil}
		})
	})
}

func seq(n int) []int {
	s := make([]int, n)
	for i := range s {
		s[i] = i
	}
	return s
}
