// C05 - the ordered map is a correct ordered dictionary under every history.
//
// Reference model: a plain slice of (key, value) pairs. Every observer of the
// real map is compared with the model after every step. See DESIGN.md §3 C05.
package c05

import (
	"encoding/json"
	"fmt"
	"math"
	"reflect"
	"strings"
	"testing"

	"github.com/buildkite/go-pipeline/ordered"
	"gopkg.in/yaml.v3"
	"pgregory.net/rapid"

	"verif/harness/internal/ev"
	"verif/harness/internal/gt"
)

func TestMain(m *testing.M) { ev.Main(m) }

// ---------------------------------------------------------------------------
// model

type pair struct {
	K   string
	V   any
	uid int // creation order == position order (entries are only appended or removed)
}

type model struct {
	ps   []pair
	next int
}

func (m *model) find(k string) int {
	for i, p := range m.ps {
		if p.K == k {
			return i
		}
	}
	return -1
}

func (m *model) set(k string, v any) {
	if i := m.find(k); i >= 0 {
		m.ps[i].V = v
		return
	}
	m.ps = append(m.ps, pair{k, v, m.next})
	m.next++
}

func (m *model) del(k string) {
	if i := m.find(k); i >= 0 {
		m.ps = append(m.ps[:i:i], m.ps[i+1:]...)
	}
}

// replace: documented semantics of ordered.Map.Replace.
func (m *model) replace(old, new string, v any) {
	i := m.find(old)
	if i < 0 {
		// "If the old key doesn't exist in the map, the item is inserted at the
		// end. If the new key already exists ... it is deleted."
		m.del(new)
		m.ps = append(m.ps, pair{new, v, m.next})
		m.next++
		return
	}
	if new != old {
		uid := m.ps[i].uid
		m.del(new)
		i = -1
		for j, p := range m.ps {
			if p.uid == uid {
				i = j
			}
		}
	}
	m.ps[i].K = new
	m.ps[i].V = v
}

func (m *model) clone() *model {
	c := &model{next: m.next, ps: append([]pair{}, m.ps...)}
	return c
}

// ---------------------------------------------------------------------------
// op encoding (shared by the rapid machine, the enumerator and replay files)

type op struct {
	Kind string `json:"kind"` // set, del, rep, rr (range-rename)
	K    string `json:"k,omitempty"`
	K2   string `json:"k2,omitempty"`
	V    any    `json:"v,omitempty"`
	// range-rename plan: for the i-th visited entry, rename it to RR[i].To
	// (""+keep) and/or rename another live key.
	RR []rrStep `json:"rr,omitempty"`
}

type rrStep struct {
	Self    bool   `json:"self"`
	To      string `json:"to,omitempty"`
	Other   bool   `json:"other"`
	OtherIx int    `json:"other_ix,omitempty"` // index into live keys (mod len)
	OtherTo string `json:"other_to,omitempty"`
	V       any    `json:"v,omitempty"`
}

// failure carries a message out of the safe-call wrapper.
type failure struct{ msg string }

func failf(format string, args ...any) { panic(failure{fmt.Sprintf(format, args...)}) }

// guard runs f; a panic raised by the library becomes an error with the history.
func guard(what string, f func()) (err error) {
	defer func() {
		if r := recover(); r != nil {
			if fl, ok := r.(failure); ok {
				err = fmt.Errorf("%s", fl.msg)
				return
			}
			err = fmt.Errorf("PANIC in %s: %v", what, r)
		}
	}()
	f()
	return nil
}

// apply performs one op on both the real map and the model.
func apply(real *ordered.MapSA, m *model, o op) error {
	switch o.Kind {
	case "set":
		m.set(o.K, o.V)
		return guard("Set", func() { real.Set(o.K, o.V) })
	case "del":
		m.del(o.K)
		return guard("Delete", func() { real.Delete(o.K) })
	case "rep":
		m.replace(o.K, o.K2, o.V)
		return guard("Replace", func() { real.Replace(o.K, o.K2, o.V) })
	case "rr":
		return guard("Range+Replace", func() {
			startUIDs := map[int]bool{}
			for _, p := range m.ps {
				startUIDs[p.uid] = true
			}
			visited := map[int]bool{}
			last := -1
			step := 0
			real.Range(func(k string, v any) error {
				i := m.find(k)
				if i < 0 {
					failf("Range visited key %q which is not in the map at that moment (model %v)", k, m.ps)
				}
				if !valueEq(m.ps[i].V, v) {
					failf("Range visited %q with value %v, model has %v", k, v, m.ps[i].V)
				}
				uid := m.ps[i].uid
				if visited[uid] {
					failf("Range visited entry %q twice", k)
				}
				if uid < last {
					failf("Range visited %q out of order", k)
				}
				visited[uid] = true
				last = uid
				if step < len(o.RR) {
					s := o.RR[step]
					if s.Other && len(m.ps) > 0 {
						ok := m.ps[s.OtherIx%len(m.ps)].K
						ov := m.ps[s.OtherIx%len(m.ps)].V
						m.replace(ok, s.OtherTo, ov)
						real.Replace(ok, s.OtherTo, ov)
					}
					if s.Self && m.find(k) >= 0 { // k may just have been renamed/removed by "other"
						m.replace(k, s.To, s.V)
						real.Replace(k, s.To, s.V)
					}
				}
				step++
				return nil
			})
			for _, p := range m.ps {
				if startUIDs[p.uid] && !visited[p.uid] {
					failf("Range never visited entry %q which was in the map throughout", p.K)
				}
			}
		})
	}
	return fmt.Errorf("bad op %q", o.Kind)
}

func valueEq(a, b any) bool {
	an, e1 := gt.FromGo(a)
	bn, e2 := gt.FromGo(b)
	if e1 != nil || e2 != nil {
		return reflect.DeepEqual(a, b)
	}
	// exact: same kinds, same order
	return gt.Diff(an, bn, gt.Opt{}) == "" && sameKinds(an, bn)
}

func sameKinds(a, b *gt.Node) bool {
	if a.Kind != b.Kind {
		return false
	}
	for i := range a.Items {
		if !sameKinds(a.Items[i], b.Items[i]) {
			return false
		}
	}
	for i := range a.Vals {
		if a.Keys[i] != b.Keys[i] || !sameKinds(a.Vals[i], b.Vals[i]) {
			return false
		}
	}
	return true
}

// ---------------------------------------------------------------------------
// observers vs model

func build(ps []pair) *ordered.MapSA {
	m := ordered.NewMap[string, any](len(ps))
	for _, p := range ps {
		m.Set(p.K, cloneVal(p.V))
	}
	return m
}

func cloneVal(v any) any {
	switch t := v.(type) {
	case []any:
		c := make([]any, len(t))
		for i, x := range t {
			c[i] = cloneVal(x)
		}
		return c
	case *ordered.MapSA:
		if t == nil {
			return t
		}
		c := ordered.NewMap[string, any](t.Len())
		t.Range(func(k string, v any) error { c.Set(k, cloneVal(v)); return nil })
		return c
	case *ordered.MapSS:
		if t == nil {
			return t
		}
		c := ordered.NewMap[string, string](t.Len())
		t.Range(func(k, v string) error { c.Set(k, v); return nil })
		return c
	}
	return v
}

// hasNonFinite reports whether v holds an infinite float at any depth.
func hasNonFinite(v any) bool {
	switch t := v.(type) {
	case float64:
		return math.IsInf(t, 0) || math.IsNaN(t)
	case []any:
		for _, x := range t {
			if hasNonFinite(x) {
				return true
			}
		}
	case *ordered.MapSA:
		found := false
		if t != nil {
			t.Range(func(_ string, x any) error { found = found || hasNonFinite(x); return nil })
		}
		return found
	}
	return false
}

func modelNode(ps []pair) *gt.Node {
	n := gt.MapN(true)
	for _, p := range ps {
		n.Keys = append(n.Keys, p.K)
		n.Vals = append(n.Vals, gt.MustGo(p.V))
	}
	return n
}

// observe compares every observer of real with the model. probe is the list of
// keys to look up (alphabet + absent keys).
func observe(real *ordered.MapSA, m *model, probe []string, deep bool) error {
	return guard("observer", func() {
		if got := real.Len(); got != len(m.ps) {
			failf("Len() = %d, model %d", got, len(m.ps))
		}
		if got := real.IsZero(); got != (len(m.ps) == 0) {
			failf("IsZero() = %v, model has %d entries", got, len(m.ps))
		}
		for _, k := range probe {
			i := m.find(k)
			v, ok := real.Get(k)
			if ok != (i >= 0) {
				failf("Get(%q) found=%v, model found=%v", k, ok, i >= 0)
			}
			if ok && !valueEq(v, m.ps[i].V) {
				failf("Get(%q) = %v, model %v", k, v, m.ps[i].V)
			}
			if !ok && v != nil {
				failf("Get(%q) absent but value %v", k, v)
			}
			if c := real.Contains(k); c != (i >= 0) {
				failf("Contains(%q) = %v, model %v", k, c, i >= 0)
			}
		}
		// Range
		idx := 0
		if err := real.Range(func(k string, v any) error {
			if idx >= len(m.ps) {
				failf("Range yields more than the model's %d entries (extra key %q)", len(m.ps), k)
			}
			if k != m.ps[idx].K || !valueEq(v, m.ps[idx].V) {
				failf("Range item %d = (%q,%v), model (%q,%v)", idx, k, v, m.ps[idx].K, m.ps[idx].V)
			}
			idx++
			return nil
		}); err != nil {
			failf("Range returned error %v", err)
		}
		if idx != len(m.ps) {
			failf("Range yielded %d entries, model %d", idx, len(m.ps))
		}
		// Range stops on error and returns it
		if len(m.ps) > 0 {
			stop := fmt.Errorf("stop")
			calls := 0
			if err := real.Range(func(string, any) error { calls++; return stop }); err != stop || calls != 1 {
				failf("Range with failing callback: err=%v calls=%d", err, calls)
			}
		}
		// ToMap
		tm := real.ToMap()
		if tm == nil || len(tm) != len(m.ps) {
			failf("ToMap() has %d entries (nil=%v), model %d", len(tm), tm == nil, len(m.ps))
		}
		for _, p := range m.ps {
			v, ok := tm[p.K]
			if !ok || !valueEq(v, p.V) {
				failf("ToMap()[%q] = %v,%v model %v", p.K, v, ok, p.V)
			}
		}
		want := modelNode(m.ps)
		// MarshalJSON
		jb, err := real.MarshalJSON()
		nonFinite := false
		for _, p := range m.ps {
			nonFinite = nonFinite || hasNonFinite(p.V)
		}
		if nonFinite {
			// the model has no JSON form (JSON cannot express an infinity): the encoder must say so rather
			// than write something else in its place
			if err == nil {
				failf("MarshalJSON returned %s for a map holding a number JSON cannot express (the model's pairs have no JSON form)", jb)
			}
		} else {
			if err != nil {
				failf("MarshalJSON error %v", err)
			}
			jn, err := gt.FromJSON(jb)
			if err != nil {
				failf("MarshalJSON output does not parse: %v: %s", err, jb)
			}
			if d := gt.Diff(want, jn, gt.Opt{}); d != "" {
				failf("MarshalJSON differs from model: %s\njson: %s", d, jb)
			}
		}
		// MarshalYAML
		yv, err := real.MarshalYAML()
		if err != nil {
			failf("MarshalYAML error %v", err)
		}
		yn, ok := yv.(*yaml.Node)
		if !ok {
			failf("MarshalYAML returned %T", yv)
		}
		gy, err := gt.FromYAMLNode(yn)
		if err != nil {
			failf("MarshalYAML node unreadable: %v", err)
		}
		// the keys of the model are STRINGS: each key node must say so (a key such as "10", "true" or
		// "~" written as an untagged plain scalar denotes a number, a boolean, null)
		if yn.Kind == yaml.MappingNode {
			for i := 0; i+1 < len(yn.Content); i += 2 {
				if k := yn.Content[i]; k.ShortTag() != "!!str" && k.Value != "<<" {
					failf("MarshalYAML: the node of key %q resolves to %s, not to a string", k.Value, k.ShortTag())
				}
			}
		}
		if d := gt.Diff(want, gy, gt.Opt{}); d != "" {
			failf("MarshalYAML differs from model: %s", d)
		}
		// Equal: reflexive, against independently built twin, against variants
		if !ordered.Equal(real, real) {
			failf("Equal(m, m) = false")
		}
		twin := build(m.ps)
		if !ordered.Equal(real, twin) || !ordered.Equal(twin, real) {
			failf("Equal(m, twin built from model %v) = %v / %v, want true", m.ps, ordered.Equal(real, twin), ordered.Equal(twin, real))
		}
		if !deep {
			return
		}
		for vi, variant := range variants(m.ps) {
			vm := build(variant)
			if ordered.Equal(real, vm) || ordered.Equal(vm, real) {
				failf("Equal(m, variant %d %v) = true but model %v differs", vi, variant, m.ps)
			}
		}
		var nilm *ordered.MapSA
		if ordered.Equal(real, nilm) || ordered.Equal(nilm, real) {
			failf("Equal(m, nil) = true for non-nil m")
		}
	})
}

// variants: single-point differences from ps (all must compare unequal).
func variants(ps []pair) [][]pair {
	var out [][]pair
	cp := func() []pair { return append([]pair{}, ps...) }
	if len(ps) > 0 {
		v := cp()
		v[len(v)-1].V = "\x00different"
		out = append(out, v)
		v = cp()
		v[0].V = []any{"\x00different"}
		out = append(out, v)
		out = append(out, cp()[:len(ps)-1]) // last dropped
		out = append(out, cp()[1:])         // first dropped
		v = cp()
		v[0].K = v[0].K + "\x00renamed"
		out = append(out, v)
	}
	if len(ps) > 1 {
		v := cp()
		v[0], v[len(v)-1] = v[len(v)-1], v[0]
		out = append(out, v)
		v = cp()
		v[0], v[1] = v[1], v[0]
		out = append(out, v)
	}
	v := cp()
	v = append(v, pair{K: "\x00added", V: 1})
	out = append(out, v)
	return out
}

// ---------------------------------------------------------------------------
// generators

var smallKeys = []string{"a", "b", "c"}

var lookalikeKeys = []string{"10", "true", "~", "0x10", "1.5", "null", "2001-01-01"}

func bigKeys() []string {
	ks := make([]string, 200)
	for i := range ks {
		ks[i] = fmt.Sprintf("k%03d", i)
	}
	return ks
}

func genValue(t *rapid.T, depth int) any {
	n := 6
	if depth < 2 {
		n = 9
	}
	switch rapid.IntRange(0, n-1).Draw(t, "vkind") {
	case 8:
		// a string-valued ordered map as a value (what an env block nested in a generic map is)
		l := rapid.IntRange(0, 3).Draw(t, "sslen")
		m := ordered.NewMap[string, string](l)
		for i := 0; i < l; i++ {
			m.Set(rapid.SampledFrom(smallKeys).Draw(t, "ssk"), rapid.SampledFrom([]string{"", "x", "$X"}).Draw(t, "ssv"))
		}
		if m.Len() >= 2 && rapid.Bool().Draw(t, "sshistory") {
			m.Set("\x00gone", "")
			m.Delete("\x00gone")
		}
		return m
	case 0:
		return rapid.IntRange(-3, 3).Draw(t, "int")
	case 1:
		return rapid.SampledFrom([]string{"", "x", "y", "a", "$X"}).Draw(t, "str")
	case 2:
		return rapid.Bool().Draw(t, "bool")
	case 3:
		return nil
	case 4:
		if rapid.IntRange(0, 7).Draw(t, "infinite") == 0 {
			// what `.inf` / `-.inf` in a YAML document decodes to
			return rapid.SampledFrom([]float64{math.Inf(1), math.Inf(-1)}).Draw(t, "inf")
		}
		return rapid.SampledFrom([]float64{0.5, -1.25, 3}).Draw(t, "float")
	case 5:
		return rapid.IntRange(0, 2).Draw(t, "int2")
	case 6:
		l := rapid.IntRange(0, 2).Draw(t, "slen")
		s := make([]any, 0, l)
		for i := 0; i < l; i++ {
			s = append(s, genValue(t, depth+1))
		}
		return s
	default:
		l := rapid.IntRange(0, 3).Draw(t, "mlen")
		m := ordered.NewMap[string, any](l)
		for i := 0; i < l; i++ {
			m.Set(rapid.SampledFrom(smallKeys).Draw(t, "mk"), genValue(t, depth+1))
		}
		// a nested map (possibly inside a list) with a history of its own: a vacated slot that is not
		// compacted away. Content and order are what they were; an independently built copy has no such slot.
		if m.Len() >= 2 && rapid.Bool().Draw(t, "nestedhistory") {
			m.Set("\x00gone", 0)
			m.Delete("\x00gone")
		}
		return m
	}
}

func genOp(t *rapid.T, keys []string, allowRR bool) op {
	key := rapid.SampledFrom(keys)
	kinds := []string{"set", "set", "del", "del", "rep", "rep"}
	if allowRR {
		kinds = append(kinds, "rr")
	}
	switch rapid.SampledFrom(kinds).Draw(t, "op") {
	case "set":
		return op{Kind: "set", K: key.Draw(t, "k"), V: genValue(t, 0)}
	case "del":
		return op{Kind: "del", K: key.Draw(t, "k")}
	case "rep":
		return op{Kind: "rep", K: key.Draw(t, "old"), K2: key.Draw(t, "new"), V: genValue(t, 0)}
	default:
		n := rapid.IntRange(0, 5).Draw(t, "rrn")
		o := op{Kind: "rr"}
		for i := 0; i < n; i++ {
			s := rrStep{Self: rapid.Bool().Draw(t, "self"), To: key.Draw(t, "to"), V: genValue(t, 1)}
			if rapid.IntRange(0, 3).Draw(t, "otherp") == 0 {
				s.Other = true
				s.OtherIx = rapid.IntRange(0, 7).Draw(t, "oix")
				s.OtherTo = key.Draw(t, "oto")
			}
			o.RR = append(o.RR, s)
		}
		return o
	}
}

func showOps(ops []op) string {
	var b strings.Builder
	for i, o := range ops {
		if i > 0 {
			b.WriteString("; ")
		}
		switch o.Kind {
		case "set":
			fmt.Fprintf(&b, "Set(%q,%v)", o.K, showV(o.V))
		case "del":
			fmt.Fprintf(&b, "Delete(%q)", o.K)
		case "rep":
			fmt.Fprintf(&b, "Replace(%q,%q,%v)", o.K, o.K2, showV(o.V))
		case "rr":
			j, _ := json.Marshal(o.RR)
			fmt.Fprintf(&b, "RangeRename(%s)", j)
		}
	}
	return b.String()
}

func showV(v any) string {
	n, err := gt.FromGo(v)
	if err != nil {
		return fmt.Sprint(v)
	}
	return gt.Show(n)
}

func startMap(kind int) *ordered.MapSA {
	switch kind {
	case 0:
		return ordered.NewMap[string, any](0)
	case 1:
		return new(ordered.MapSA)
	case 2:
		return ordered.NewMap[string, any](8)
	default:
		return ordered.MapFromItems[string, any]()
	}
}

// ---------------------------------------------------------------------------
// the state machine

var recSM = ev.New("TestPropHistories", "rapid state machine over *ordered.MapSA: Set/Delete/Replace/Range+Replace histories from NewMap/new/MapFromItems over a 3-key or 200-key alphabet, all observers compared with a list-of-pairs model after every step; non-trivial = a tombstone was created (Delete, or Replace colliding with another live key) and followed by >=1 further mutation before the final Equal checks; distinct by hash of the op history")

func TestPropHistories(t *testing.T) {
	big := bigKeys()
	ev.Check(t, 3000, 40000, func(t *rapid.T) {
		mode := rapid.IntRange(0, 4).Draw(t, "mode")
		bigMode := mode == 0
		keys := smallKeys
		if bigMode {
			keys = big
		}
		if mode == 4 {
			// string keys that read as other YAML kinds when written plain
			keys = lookalikeKeys
		}
		probe := append(append(append([]string{}, smallKeys...), lookalikeKeys...), "zz-absent", "")
		if bigMode {
			probe = append(probe, big[:12]...)
		}
		real := startMap(rapid.IntRange(0, 3).Draw(t, "start"))
		m := &model{}
		var hist []op
		tomb, tombThenMut := false, false
		var itemsBefore, itemsKept []ordered.TupleSA
		var twin *ordered.MapSA
		var twinModel *model
		if rapid.IntRange(0, 5).Draw(t, "fromitems") == 0 {
			// MapFromItems with repeated keys: documented as Set in order
			var items []ordered.TupleSA
			for i, c := 0, rapid.IntRange(1, 6).Draw(t, "nitems"); i < c; i++ {
				k := rapid.SampledFrom(keys).Draw(t, "ik")
				items = append(items, ordered.TupleSA{Key: k, Value: i})
				m.set(k, i)
				hist = append(hist, op{Kind: "set", K: k, V: i})
			}
			real = ordered.MapFromItems(items...)
			// the caller keeps its slice, and builds a second map from it: both must stay what they are
			// whatever happens to the first map (the maps own their storage)
			itemsBefore = append([]ordered.TupleSA{}, items...)
			itemsKept = items
			twin = ordered.MapFromItems(items...)
			twinModel = m.clone()
		}
		// big mode: pre-populate so long delete runs cross the compaction threshold often
		if bigMode {
			n := rapid.IntRange(0, 200).Draw(t, "prefill")
			for i := 0; i < n; i++ {
				o := op{Kind: "set", K: big[i], V: i}
				hist = append(hist, o)
				if err := apply(real, m, o); err != nil {
					t.Fatalf("%v\nhistory: %s", err, showOps(hist))
				}
			}
		}
		steps := rapid.IntRange(1, 40).Draw(t, "steps")
		if bigMode {
			steps = rapid.IntRange(1, 400).Draw(t, "bigsteps")
		}
		for s := 0; s < steps; s++ {
			o := genOp(t, keys, true)
			before := len(m.ps)
			// a collision tombstones another live entry
			collide := o.Kind == "rep" && o.K != o.K2 && m.find(o.K2) >= 0
			hist = append(hist, o)
			if err := apply(real, m, o); err != nil {
				t.Fatalf("%v\nhistory: %s", err, showOps(hist))
			}
			if tomb {
				tombThenMut = true
			}
			if (o.Kind == "del" && len(m.ps) < before) || collide || o.Kind == "rr" {
				tomb = true
			}
			deep := !bigMode || s == steps-1
			if !bigMode || s%29 == 0 || s == steps-1 {
				if err := observe(real, m, probe, deep); err != nil {
					t.Fatalf("%v\nhistory: %s", err, showOps(hist))
				}
			}
		}
		if twin != nil {
			if err := observe(twin, twinModel, probe, true); err != nil {
				t.Fatalf("a second map built from the same items changed while the first one was operated on: %v\nhistory: %s", err, showOps(hist))
			}
			for i := range itemsBefore {
				if itemsKept[i].Key != itemsBefore[i].Key || !valueEq(itemsKept[i].Value, itemsBefore[i].Value) {
					t.Fatalf("the caller's item slice handed to MapFromItems was modified by operations on the map: item %d is now %v, was %v\nhistory: %s", i, itemsKept[i], itemsBefore[i], showOps(hist))
				}
			}
			recSM.Class("from-items-with-twin")
		}
		h := ev.HashStr(showOps(hist))
		cls := []string{"mode=small"}
		if bigMode {
			cls = []string{"mode=big"}
		}
		if mode == 4 {
			cls = []string{"mode=keys-that-look-like-other-yaml-kinds"}
		}
		if tombThenMut {
			cls = append(cls, "tombstone-then-mutation")
		}
		recSM.Case(h, tombThenMut, cls...)
		recSM.MaybeSample(tombThenMut, func() any { return showOps(hist[:min(len(hist), 30)]) })
	})
}

// Pairs of reached maps: Equal(m1,m2) <=> model1 == model2, symmetric.
var recPairs = ev.New("TestPropEqualPairs", "two independent histories over 3 keys and small values; Equal(m1,m2) must be symmetric and true exactly when the two models have the same keys, values and order; non-trivial = both maps carry a tombstone history and the models have equal length; distinct by hash of both histories")

func TestPropEqualPairs(t *testing.T) {
	ev.Check(t, 3000, 40000, func(t *rapid.T) {
		run := func(label string) (*ordered.MapSA, *model, []op, bool) {
			real := startMap(rapid.IntRange(0, 3).Draw(t, label+"start"))
			m := &model{}
			var hist []op
			tomb := false
			n := rapid.IntRange(0, 10).Draw(t, label+"n")
			for i := 0; i < n; i++ {
				var o op
				key := rapid.SampledFrom(smallKeys)
				val := rapid.SampledFrom([]any{1, 2, "x", nil, true})
				switch rapid.IntRange(0, 3).Draw(t, label+"op") {
				case 0, 1:
					o = op{Kind: "set", K: key.Draw(t, "k"), V: val.Draw(t, "v")}
				case 2:
					o = op{Kind: "del", K: key.Draw(t, "k")}
				default:
					o = op{Kind: "rep", K: key.Draw(t, "o"), K2: key.Draw(t, "n"), V: val.Draw(t, "v")}
				}
				if o.Kind != "set" {
					tomb = true
				}
				hist = append(hist, o)
				if err := apply(real, m, o); err != nil {
					t.Fatalf("%v\nhistory: %s", err, showOps(hist))
				}
			}
			return real, m, hist, tomb
		}
		r1, m1, h1, t1 := run("a")
		var r2 *ordered.MapSA
		var m2 *model
		var h2 []op
		var t2 bool
		mirrored := rapid.IntRange(0, 1).Draw(t, "mirror") == 1
		if !mirrored {
			r2, m2, h2, t2 = run("b")
		} else {
			// a second route to the content the first history reached: the same keys set in the same order,
			// with throw-away keys set in between and removed (or renamed onto the wanted key) at other
			// points, so both maps hold tombstones - usually in different slots, often in equally many
			r2, m2 = startMap(rapid.IntRange(0, 3).Draw(t, "bstart")), &model{}
			do := func(o op) {
				h2 = append(h2, o)
				if err := apply(r2, m2, o); err != nil {
					t.Fatalf("%v\nhistory: %s", err, showOps(h2))
				}
			}
			var junk []string
			lead := rapid.IntRange(0, 2).Draw(t, "lead")
			for i := 0; i < lead; i++ {
				j := fmt.Sprintf("lead%d", i)
				do(op{Kind: "set", K: j, V: 0})
				junk = append(junk, j)
			}
			for i, p := range m1.ps {
				j := fmt.Sprintf("j%d", i)
				switch rapid.IntRange(0, 4).Draw(t, "route") {
				case 0, 1:
					do(op{Kind: "set", K: p.K, V: p.V})
				case 2:
					do(op{Kind: "set", K: j, V: 0})
					junk = append(junk, j)
					do(op{Kind: "set", K: p.K, V: p.V})
				case 3:
					do(op{Kind: "set", K: j, V: 0})
					do(op{Kind: "rep", K: j, K2: p.K, V: p.V})
				default:
					do(op{Kind: "set", K: p.K, V: "other"})
					do(op{Kind: "set", K: p.K, V: p.V})
				}
			}
			trail := rapid.IntRange(0, 2).Draw(t, "trail")
			for i := 0; i < trail; i++ {
				j := fmt.Sprintf("trail%d", i)
				do(op{Kind: "set", K: j, V: 0})
				junk = append(junk, j)
			}
			for _, j := range rapid.Permutation(junk).Draw(t, "junkorder") {
				do(op{Kind: "del", K: j})
				t2 = true
			}
			if rapid.IntRange(0, 5).Draw(t, "spoil") == 0 && len(m1.ps) > 0 {
				// and sometimes one last difference
				do(op{Kind: "set", K: m1.ps[0].K, V: "spoiled"})
			}
		}
		same := len(m1.ps) == len(m2.ps)
		if same {
			for i := range m1.ps {
				if m1.ps[i].K != m2.ps[i].K || !valueEq(m1.ps[i].V, m2.ps[i].V) {
					same = false
				}
			}
		}
		var e12, e21 bool
		if err := guard("Equal", func() { e12 = ordered.Equal(r1, r2); e21 = ordered.Equal(r2, r1) }); err != nil {
			t.Fatalf("%v\nhistory A: %s\nhistory B: %s", err, showOps(h1), showOps(h2))
		}
		if e12 != same || e21 != same {
			t.Fatalf("Equal = %v / %v, models equal = %v\nhistory A: %s\nhistory B: %s", e12, e21, same, showOps(h1), showOps(h2))
		}
		nt := t1 && t2 && len(m1.ps) == len(m2.ps)
		recPairs.Case(ev.Hash(showOps(h1), showOps(h2)), nt, fmt.Sprintf("equal=%v", same), fmt.Sprintf("second-route-to-the-same-content=%v", mirrored))
		recPairs.MaybeSample(nt, func() any { return map[string]any{"a": showOps(h1), "b": showOps(h2), "equal": same} })
	})
}

// MapSS flavour (string values), incl. the env-block style rename inside Range.
var recSS = ev.New("TestPropHistoriesSS", "same state machine over *ordered.MapSS (string values); non-trivial = tombstone followed by a mutation; distinct by hash of history")

func TestPropHistoriesSS(t *testing.T) {
	ev.Check(t, 2000, 20000, func(t *rapid.T) {
		var real *ordered.MapSS
		switch rapid.IntRange(0, 2).Draw(t, "start") {
		case 0:
			real = ordered.NewMap[string, string](0)
		case 1:
			real = new(ordered.MapSS)
		default:
			real = ordered.MapFromItems[string, string]()
		}
		m := &model{}
		var hist []string
		key := rapid.SampledFrom(smallKeys)
		val := rapid.SampledFrom([]string{"", "1", "x"})
		tomb, nt := false, false
		steps := rapid.IntRange(1, 30).Draw(t, "steps")
		for s := 0; s < steps; s++ {
			// draw everything before entering guard (guard must never swallow rapid's own panics)
			opk := rapid.IntRange(0, 3).Draw(t, "op")
			k, k2, v := key.Draw(t, "k"), key.Draw(t, "k2"), val.Draw(t, "v")
			ren := map[string]string{}
			if opk == 3 {
				for _, kk := range smallKeys {
					ren[kk] = key.Draw(t, "ren")
				}
			}
			err := guard("op", func() {
				switch opk {
				case 0:
					hist = append(hist, fmt.Sprintf("Set(%q,%q)", k, v))
					m.set(k, v)
					real.Set(k, v)
				case 1:
					hist = append(hist, fmt.Sprintf("Delete(%q)", k))
					if m.find(k) >= 0 {
						tomb = true
					}
					m.del(k)
					real.Delete(k)
				case 2:
					o, n := k, k2
					hist = append(hist, fmt.Sprintf("Replace(%q,%q,%q)", o, n, v))
					if o != n && m.find(n) >= 0 {
						tomb = true
					}
					m.replace(o, n, v)
					real.Replace(o, n, v)
				default:
					// env-block style: rename every visited key through a drawn mapping
					hist = append(hist, fmt.Sprintf("RangeRename(%v)", ren))
					tomb = true
					real.Range(func(k, v string) error {
						if m.find(k) < 0 {
							failf("Range visited absent key %q", k)
						}
						m.replace(k, ren[k], v+"!")
						real.Replace(k, ren[k], v+"!")
						return nil
					})
				}
				// observers
				if real.Len() != len(m.ps) || real.IsZero() != (len(m.ps) == 0) {
					failf("Len/IsZero = %d/%v, model %d", real.Len(), real.IsZero(), len(m.ps))
				}
				for _, k := range append([]string{"", "zz"}, smallKeys...) {
					v, ok := real.Get(k)
					i := m.find(k)
					if ok != (i >= 0) || real.Contains(k) != ok || (ok && v != m.ps[i].V.(string)) {
						failf("Get(%q) = %q,%v; model index %d", k, v, ok, i)
					}
				}
				i := 0
				real.Range(func(k, v string) error {
					if i >= len(m.ps) || m.ps[i].K != k || m.ps[i].V.(string) != v {
						failf("Range item %d = (%q,%q), model %v", i, k, v, m.ps)
					}
					i++
					return nil
				})
				if i != len(m.ps) {
					failf("Range yielded %d, model %d", i, len(m.ps))
				}
				twin := ordered.NewMap[string, string](0)
				for _, p := range m.ps {
					twin.Set(p.K, p.V.(string))
				}
				if !ordered.EqualSS(real, twin) || !ordered.EqualSS(twin, real) || !ordered.EqualSS(real, real) {
					failf("EqualSS with twin/self false")
				}
				twin.Set("\x00extra", "")
				if ordered.EqualSS(real, twin) || ordered.EqualSS(twin, real) {
					failf("EqualSS with longer twin true")
				}
				jb, err := json.Marshal(real)
				if err != nil {
					failf("json.Marshal: %v", err)
				}
				jn, err := gt.FromJSON(jb)
				if err != nil {
					failf("json parse: %v", err)
				}
				if d := gt.Diff(modelNode(m.ps), jn, gt.Opt{}); d != "" {
					failf("JSON differs: %s", d)
				}
			})
			if err != nil {
				t.Fatalf("%v\nhistory: %s", err, strings.Join(hist, "; "))
			}
			if tomb && s < steps-1 {
				nt = true
			}
		}
		recSS.Case(ev.HashStr(strings.Join(hist, ";")), nt)
		recSS.MaybeSample(nt, func() any { return strings.Join(hist, "; ") })
	})
}

// Nil receivers: all observers and Delete must work on a nil map.
func TestNilReceivers(t *testing.T) {
	ev.SkipIfReplayingOther(t)
	var m *ordered.MapSA
	err := guard("nil receiver", func() {
		if m.Len() != 0 || !m.IsZero() || m.Contains("a") {
			failf("nil map not empty")
		}
		if v, ok := m.Get("a"); ok || v != nil {
			failf("nil Get")
		}
		m.Delete("a")
		if err := m.Range(func(string, any) error { failf("nil Range called back"); return nil }); err != nil {
			failf("nil Range err")
		}
		if m.ToMap() != nil {
			failf("nil ToMap not nil")
		}
		if !ordered.Equal(m, m) || !ordered.Equal[string, any](nil, nil) {
			failf("Equal(nil,nil) false")
		}
		// Equal(nil, empty) is not asserted: the statement does not say whether
		// a nil map and an empty map are "the same keys, values and order".
		b, err := m.MarshalJSON()
		if err != nil || string(b) != "{}" {
			failf("nil MarshalJSON = %s, %v", b, err)
		}
		if _, err := m.MarshalYAML(); err != nil {
			failf("nil MarshalYAML err %v", err)
		}
	})
	if err != nil {
		t.Fatal(err)
	}
}

// ---------------------------------------------------------------------------
// exhaustive tier: every history up to a bounded length over three keys

type enumCase struct {
	Start int   `json:"start"`
	Ops   []int `json:"ops"`
}

// enumOps: 3 Set, 3 Delete, 9 Replace, 2 Range-renames = 17 operations.
func enumOp(code, step int) op {
	switch {
	case code < 3:
		return op{Kind: "set", K: smallKeys[code], V: step}
	case code < 6:
		return op{Kind: "del", K: smallKeys[code-3]}
	case code < 15:
		c := code - 6
		return op{Kind: "rep", K: smallKeys[c/3], K2: smallKeys[c%3], V: step}
	case code == 15:
		// rename every visited key to the next key of the alphabet (a->b->c->a)
		return op{Kind: "rrshift"}
	default:
		return op{Kind: "rrall"}
	}
}

const nEnumOps = 17

func applyEnum(real *ordered.MapSA, m *model, o op) error {
	switch o.Kind {
	case "rrshift", "rrall":
		return guard("Range+Replace", func() {
			real.Range(func(k string, v any) error {
				if m.find(k) < 0 {
					failf("Range visited key %q which is not in the map at that moment (model %v)", k, m.ps)
				}
				to := "a"
				if o.Kind == "rrshift" {
					to = map[string]string{"a": "b", "b": "c", "c": "a"}[k]
				}
				m.replace(k, to, v)
				real.Replace(k, to, v)
				return nil
			})
		})
	}
	return apply(real, m, o)
}

func runEnumCase(c enumCase) (string, error) {
	real := startMap(c.Start)
	m := &model{}
	var hist []op
	probe := []string{"a", "b", "c", "d"}
	for i, code := range c.Ops {
		o := enumOp(code, i)
		hist = append(hist, o)
		if err := applyEnum(real, m, o); err != nil {
			return showOps(hist), err
		}
	}
	// observers at the end of this prefix (every prefix is itself enumerated)
	if err := observe(real, m, probe, true); err != nil {
		return showOps(hist), err
	}
	return showOps(hist), nil
}

var recEnum = ev.New("TestExhaustiveHistories", "every history of length <= L (quick 4, thorough 6) over 17 operations (3 Set, 3 Delete, 9 Replace incl. self-renames and absent keys, 2 rename-inside-Range) on 3 keys, from NewMap(0) and new(Map) (thorough: also NewMap(8)); full observer comparison after every prefix; non-trivial = history contains a Delete/colliding Replace/Range-rename that is not the last op; distinct by construction (each history enumerated once)")

func TestExhaustiveHistories(t *testing.T) {
	var rc enumCase
	if ev.ReplayCase(t.Name(), &rc) {
		if h, err := runEnumCase(rc); err != nil {
			t.Fatalf("%v\nhistory: %s", err, h)
		}
		return
	}
	ev.SkipIfReplayingOther(t)
	maxLen := 4
	starts := []int{0, 1}
	if ev.Thorough() {
		maxLen = 6
		starts = []int{0, 1, 2}
	}
	shard, shards := ev.Shard(), ev.Shards()
	count := 0
	var rec func(start int, ops []int)
	rec = func(start int, ops []int) {
		if len(ops) > 0 {
			// shard on the first two ops
			if len(ops) >= 2 || maxLen < 2 {
				if (ops[0]*nEnumOps+ops[min(1, len(ops)-1)])%shards != shard {
					return
				}
			} else if shard != 0 {
				// length-1 histories: shard 0 only; but must still descend
				goto descend
			}
			c := enumCase{Start: start, Ops: ops}
			h, err := runEnumCase(c)
			if err != nil {
				ev.FailCase(t, c, "%v\nhistory: %s", err, h)
			}
			count++
			nt := false
			for i, code := range ops {
				if code >= 3 && i < len(ops)-1 {
					nt = true
				}
			}
			recEnum.Case(ev.Hash(start, ops), nt, fmt.Sprintf("len=%d", len(ops)))
			if nt {
				recEnum.MaybeSample(true, func() any { return h })
			}
		}
	descend:
		if len(ops) == maxLen {
			return
		}
		for code := 0; code < nEnumOps; code++ {
			rec(start, append(append([]int{}, ops...), code))
		}
	}
	for _, s := range starts {
		rec(s, nil)
	}
	recEnum.Exhaustive()
	t.Logf("enumerated %d histories (shard %d/%d, max length %d)", count, shard, shards, maxLen)
}
