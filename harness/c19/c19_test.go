// C19 - no hidden shared state: concurrent use is race-free; observers do not mutate.
// Built with -race (see props.json); the deciding signals are the race detector's
// report and inequality of concurrent and sequential results.
package c19

import (
	"bytes"
	"context"
	"encoding/json"
	"fmt"
	"github.com/buildkite/interpolate"
	"github.com/lestrrat-go/jwx/v2/jwk"
	"runtime"
	"strings"
	"sync"
	"testing"

	pipeline "github.com/buildkite/go-pipeline"
	"github.com/buildkite/go-pipeline/jwkutil"
	"github.com/buildkite/go-pipeline/ordered"
	"github.com/buildkite/go-pipeline/signature"
	"github.com/buildkite/go-pipeline/warning"
	"gopkg.in/yaml.v3"
	"pgregory.net/rapid"

	"verif/harness/internal/canon"
	"verif/harness/internal/doc"
	"verif/harness/internal/envx"
	"verif/harness/internal/ev"
	"verif/harness/internal/gt"
	"verif/harness/internal/keys"
	"verif/harness/internal/probe"
	"verif/harness/internal/sgen"
	"verif/harness/internal/strs"
)

func TestMain(m *testing.M) {
	procs := []int{16, 2, 4}
	runtime.GOMAXPROCS(procs[ev.Shard()%len(procs)])
	ev.Main(m)
}

const workers = 16

var envVals = map[string]string{"X": "xv", "FOO": "foo", "FOO_BAR": "fb", "HOME": "/h", "A": "a"}

type result struct {
	err      string
	json     []byte
	yaml     []byte
	nsteps   int
	verified int
	shape    string // object-model walk without signatures
}

func walk(ss pipeline.Steps, f func(*pipeline.CommandStep)) {
	for _, s := range ss {
		switch t := s.(type) {
		case *pipeline.CommandStep:
			f(t)
		case *pipeline.GroupStep:
			walk(t.Steps, f)
		}
	}
}

// runOwn is the whole life of one private pipeline: parse, interpolate, sign, marshal, re-parse, verify.
func runOwn(ctx context.Context, text []byte, kp keys.Pair, interp bool, yamlOK bool) (r result) {
	defer func() {
		if x := recover(); x != nil {
			r.err = fmt.Sprintf("PANIC: %v", x)
		}
	}()
	p, err := pipeline.Parse(bytes.NewReader(text))
	if p == nil || (err != nil && !warning.Is(err)) {
		r.err = fmt.Sprintf("parse: %v", err)
		return
	}
	if interp {
		if err := p.Interpolate(envx.New(false, envVals), false); err != nil {
			p, _ = pipeline.Parse(bytes.NewReader(text))
		}
	}
	penv := map[string]string{}
	if p.Env != nil {
		penv = p.Env.ToMap()
	}
	treeBefore := canon.Pipeline(p, canon.Mode{NoSignature: true})
	shapeBefore := gt.Show(treeBefore)
	// the YAML-leg carve-out covers strings the parse derives too (a command joined from a list that begins with "")
	if yamlOK && doc.HasString(treeBefore, func(s string) bool { return !strs.YAMLLegOK(s) }) {
		yamlOK = false
	}
	if err := signature.SignSteps(ctx, p.Steps, kp.Priv, "repo", signature.WithEnv(penv)); err != nil {
		r.err = fmt.Sprintf("sign: %v", err)
		return
	}
	r.shape = shapeBefore
	defer func() {
		// signing, marshalling and verifying are observers of everything but the signature
		if after := gt.Show(canon.Pipeline(p, canon.Mode{NoSignature: true})); r.err == "" && after != shapeBefore {
			r.err = "sign / marshal / verify modified the pipeline they observe (apart from attaching signatures)"
		}
	}()
	if r.json, err = json.Marshal(p); err != nil {
		r.err = fmt.Sprintf("json: %v", err)
		return
	}
	if yamlOK {
		if r.yaml, err = yaml.Marshal(p); err != nil {
			r.err = fmt.Sprintf("yaml: %v", err)
			return
		}
	}
	q, err := pipeline.Parse(bytes.NewReader(r.json))
	if q == nil || (err != nil && !warning.Is(err)) {
		r.err = fmt.Sprintf("reparse: %v", err)
		return
	}
	walk(q.Steps, func(cs *pipeline.CommandStep) {
		r.nsteps++
		if cs.Signature != nil && signature.Verify(ctx, cs.Signature, kp.Pub, &signature.CommandStepWithInvariants{CommandStep: *cs, RepositoryURL: "repo"}, signature.WithEnv(penv)) == nil {
			r.verified++
		}
	})
	return
}

// expandedKeysCollide reports whether some mapping of the document has two keys whose expansions
// under envVals are the same text.
func expandedKeysCollide(n *gt.Node) bool {
	env := envx.New(false, envVals)
	dup := false
	gt.Walk(n, func(_ string, x *gt.Node) {
		if x.Kind != gt.Map {
			return
		}
		seen := map[string]bool{}
		for _, k := range x.Keys {
			e, err := interpolate.Interpolate(env, k)
			if err != nil {
				e = k
			}
			if seen[e] {
				dup = true
			}
			seen[e] = true
		}
	})
	return dup
}

// yamlUnstable is set per case: the document holds a key with an overflowing digit run, for which
// yaml.v3's key sorter is not a strict weak order (known finding F11) - the YAML bytes of a Go map
// then vary from call to call, sequentially too, and only the parsed YAML is compared.
func (a result) diff(b result, deterministicSig, yamlUnstable bool) string {
	switch {
	case a.err != b.err:
		return fmt.Sprintf("error %q vs %q", a.err, b.err)
	case a.shape != b.shape:
		return "object model differs"
	case a.nsteps != b.nsteps || a.verified != b.verified:
		return fmt.Sprintf("steps/verified %d/%d vs %d/%d", a.nsteps, a.verified, b.nsteps, b.verified)
	case deterministicSig && !bytes.Equal(a.json, b.json):
		return "JSON bytes differ"
	case deterministicSig && !yamlUnstable && !bytes.Equal(a.yaml, b.yaml):
		return "YAML bytes differ"
	case deterministicSig && yamlUnstable && len(a.yaml) > 0:
		ta, ea := gt.FromYAML(a.yaml)
		tb, eb := gt.FromYAML(b.yaml)
		if ea != nil || eb != nil {
			return fmt.Sprintf("marshalled YAML does not decode: %v / %v", ea, eb)
		}
		if df := gt.Diff(ta, tb, gt.Opt{IgnoreOrder: true}); df != "" {
			return "YAML differs beyond the order of keys: " + df
		}
	}
	return ""
}

// tombstoned builds an ordered map through a drawn history (so it carries deleted slots) and a twin.
func tombstoned(t *rapid.T) (*ordered.MapSA, *ordered.MapSA, bool) {
	m := ordered.NewMap[string, any](0)
	type op struct {
		kind  int
		k, k2 string
		v     any
	}
	var hist []op
	tomb := false
	keysA := []string{"a", "b", "c", "d", "e", "f", "g", "h", "i", "j", "k", "l"}
	// churn mode: a long run of Set / Replace only (no Delete, hence no compaction), the replaced key
	// mostly absent and the new key mostly present - every such Replace appends a slot and tombstones one,
	// so the backing slice grows far beyond the live keys (dozens of slots, mostly deleted)
	churn := rapid.IntRange(0, 2).Draw(t, "churn") == 1
	nops := rapid.IntRange(3, 40).Draw(t, "nops")
	if churn {
		nops = rapid.IntRange(40, 120).Draw(t, "churnops")
	}
	for i := 0; i < nops; i++ {
		o := op{kind: rapid.IntRange(0, 4).Draw(t, "op"), k: rapid.SampledFrom(keysA).Draw(t, "k"), k2: rapid.SampledFrom(keysA).Draw(t, "k2")}
		if churn {
			o.kind = rapid.SampledFrom([]int{0, 4, 4, 4}).Draw(t, "churnop")
			o.k = fmt.Sprintf("gone%d", rapid.IntRange(0, 30).Draw(t, "gone"))
			o.k2 = rapid.SampledFrom(keysA[:5]).Draw(t, "k2small")
			if o.kind == 0 {
				o.k = o.k2
			}
		}
		switch rapid.IntRange(0, 3).Draw(t, "vk") {
		case 0:
			o.v = i
		case 1:
			o.v = strs.Simple().Draw(t, "v")
		case 2:
			o.v = []any{i, "x"}
		default:
			o.v = ordered.MapFromItems(ordered.TupleSA{Key: "n", Value: i})
		}
		hist = append(hist, o)
	}
	apply := func(dst *ordered.MapSA) {
		for _, o := range hist {
			switch o.kind {
			case 0, 1, 2:
				dst.Set(o.k, o.v)
			case 3:
				if dst.Contains(o.k) {
					tomb = true
				}
				dst.Delete(o.k)
			default:
				if o.k != o.k2 && dst.Contains(o.k2) {
					tomb = true
				}
				dst.Replace(o.k, o.k2, o.v)
			}
		}
	}
	apply(m)
	if churn {
		rec.Class("shared-map-replace-churn")
	}
	twin := ordered.NewMap[string, any](0)
	apply(twin)
	return m, twin, tomb
}

var rec = ev.New("TestPropConcurrentUse", "rounds of 16 goroutines behind a start barrier under the race detector: (a) each goroutine parses, interpolates, signs, marshals (JSON+YAML), re-parses and verifies its OWN copy of a grammar-generated pipeline (maps of > 8 entries, anchors) - every result must equal the sequential one; (b) the goroutines concurrently OBSERVE one shared ordered map built through a generated Set/Delete/Replace history (tombstones) - Get, Contains, Len, Range, ToMap, Equal with itself and a twin, MarshalJSON, MarshalYAML -, one shared parsed-and-signed pipeline - json/yaml marshal, Verify of every step, Sign of a shared step, FullSource of shared plugins - and one shared key set; object-model snapshots and marshalled bytes of every observed object are compared before and after; non-trivial = the shared map carries tombstones and the pipeline has >= 1 signed step; distinct by hash of (document, map)")

func TestPropConcurrentUse(t *testing.T) {
	ctx := context.Background()
	pool := keys.Pool()
	ev.Check(t, 30, 300, func(t *rapid.T) {
		g := doc.NewG(t, doc.Config{EmptyCfgBias: true, Anchors: rapid.Bool().Draw(t, "anchors"), Timestamps: true, Floats: true, BigMaps: true, BigMapOneIn: 6,
			EmptyKey: true, EmptyMatrix: true, BothCommands: true})
		root := g.Pipeline()
		d, err := doc.Render(root, 2, 20000)
		if err != nil {
			rec.Excluded("render-fault-or-outside")
			return
		}
		kp := pool[rapid.IntRange(0, 1).Draw(t, "fast")]
		if rapid.IntRange(0, 3).Draw(t, "anykey") == 0 {
			kp = rapid.SampledFrom(pool).Draw(t, "key")
		}
		det := kp.Kind == "EdDSA"
		interp := rapid.Bool().Draw(t, "interp")
		if interp && expandedKeysCollide(d.Meaning) {
			// two keys of one mapping that expand to the same text: which entry survives the renaming
			// follows Go's map iteration order for map-backed levels, sequentially too (outside C04's
			// domain as well) - such a document goes through the life cycle without interpolation
			interp = false
			rec.Excluded("interpolation step: expanded keys collide within one mapping (result is iteration-order dependent sequentially too)")
		}
		yamlOK := !doc.HasString(d.Meaning, func(s string) bool { return !strs.YAMLLegOK(s) || s == "<<" }) && !doc.HasKey(d.Meaning, func(k string) bool { return k == "<<" || !strs.YAMLLegOK(k) })

		yamlUnstable := ev.Known("F11") && doc.HasKey(d.Meaning, probe.LongDigitRun)
		if yamlUnstable && yamlOK {
			rec.Excluded("yaml byte comparison: key with an overflowing digit run (known finding F11); parsed YAML compared instead")
		}
		// (a) sequential reference, then 16 private copies concurrently
		ref := runOwn(ctx, d.YAML, kp, interp, yamlOK)
		if strings.HasPrefix(ref.err, "sign / marshal / verify modified") {
			t.Fatalf("%s\n%s", ref.err, d.YAML)
		}
		if ref.err != "" {
			rec.Excluded("sequential run does not complete (other properties decide that): " + firstWord(ref.err))
			return
		}
		if !yamlOK {
			rec.Class("yaml-leg-skipped")
		}
		start := make(chan struct{})
		var wg sync.WaitGroup
		results := make([]result, workers)
		for i := 0; i < workers; i++ {
			wg.Add(1)
			go func(i int) {
				defer wg.Done()
				<-start
				results[i] = runOwn(ctx, d.YAML, kp, interp, yamlOK)
			}(i)
		}
		close(start)
		wg.Wait()
		for i, r := range results {
			if df := ref.diff(r, det, yamlUnstable); df != "" {
				t.Fatalf("goroutine %d working on its own copy got a different result than the sequential run: %s\n%s", i, df, d.YAML)
			}
		}

		// (b) shared objects, read-only use
		m, twin, tomb := tombstoned(t)
		ps, perr := pipeline.Parse(bytes.NewReader(d.YAML))
		if ps == nil || (perr != nil && !warning.Is(perr)) {
			return
		}
		penv := map[string]string{}
		if ps.Env != nil {
			penv = ps.Env.ToMap()
		}
		psUnsigned := gt.Show(canon.Pipeline(ps, canon.Mode{NoSignature: true}))
		if err := signature.SignSteps(ctx, ps.Steps, kp.Priv, "repo", signature.WithEnv(penv)); err != nil {
			return
		}
		var shared []*pipeline.CommandStep
		walk(ps.Steps, func(cs *pipeline.CommandStep) { shared = append(shared, cs) })
		// a signature names its fields in any order (the payload is a canonicalised object): half the
		// time the shared steps carry their field lists in a drawn order, as another signer may write them
		if rapid.Bool().Draw(t, "shufflefields") {
			for _, cs := range shared {
				if cs.Signature != nil && len(cs.Signature.SignedFields) > 1 {
					cs.Signature.SignedFields = rapid.Permutation(cs.Signature.SignedFields).Draw(t, "fieldorder")
				}
			}
			rec.Class("shared-signatures-with-unsorted-field-lists")
		}
		// a second shared pipeline that nothing has observed yet (signing above has already walked ps):
		// its expected snapshot and bytes come from a twin parse of the same text
		pu, _ := pipeline.Parse(bytes.NewReader(d.YAML))
		puTwin, _ := pipeline.Parse(bytes.NewReader(d.YAML))
		if pu == nil || puTwin == nil {
			return
		}
		puBefore := gt.Show(canon.Pipeline(puTwin, canon.Raw))
		puJSON, _ := json.Marshal(puTwin)
		var fresh []*pipeline.CommandStep
		walk(pu.Steps, func(cs *pipeline.CommandStep) { fresh = append(fresh, cs) })
		// the shared map is first touched by the concurrent observers themselves (an observer that tidies
		// the map up on first use would otherwise do so here, sequentially): the expected snapshot and
		// bytes are taken from the twin built through the same history
		mBefore, psBefore := gt.Show(canon.Value(twin)), gt.Show(canon.Pipeline(ps, canon.Raw))
		mJSON, _ := json.Marshal(twin)
		psJSON, _ := json.Marshal(ps)
		penvBefore := fmt.Sprint(penv)
		// a shared verification key set of its own: the right public key, and the public key of another
		// pair as a set exported without ids publishes it (no `kid` member)
		var vset jwk.Set
		var vsetBefore, pubSetBefore []byte
		if kp.PubSet != nil {
			vset = jwk.NewSet()
			for j := 0; j < kp.PubSet.Len(); j++ {
				k, _ := kp.PubSet.Key(j)
				c, _ := k.Clone()
				vset.AddKey(c)
			}
			for _, o := range pool {
				if o.PubSet != nil && o.Name != kp.Name {
					k, _ := o.PubSet.Key(0)
					c, _ := k.Clone()
					c.Remove(jwk.KeyIDKey)
					vset.AddKey(c)
					break
				}
			}
			vsetBefore, _ = json.Marshal(vset)
			pubSetBefore, _ = json.Marshal(kp.PubSet)
			rec.Class("shared-key-set-holding-a-key-without-kid")
		}
		start2 := make(chan struct{})
		errs := make([]string, workers)
		for i := 0; i < workers; i++ {
			wg.Add(1)
			go func(i int) {
				defer wg.Done()
				defer func() {
					if x := recover(); x != nil {
						errs[i] = fmt.Sprintf("PANIC: %v", x)
					}
				}()
				<-start2
				for round := 0; round < 2; round++ {
					// the shared ordered map
					for _, k := range []string{"a", "e", "l", "zz"} {
						m.Get(k)
						m.Contains(k)
					}
					if m.Len() != twin.Len() || m.IsZero() != twin.IsZero() {
						errs[i] = "Len/IsZero differ from twin"
					}
					n := 0
					m.Range(func(string, any) error { n++; return nil })
					if n != m.Len() || len(m.ToMap()) != n {
						errs[i] = "Range/ToMap/Len disagree"
					}
					if !ordered.Equal(m, m) || !ordered.Equal(m, twin) || !ordered.Equal(twin, m) {
						errs[i] = "Equal(m, m/twin) false"
					}
					if b, err := m.MarshalJSON(); err != nil || !bytes.Equal(b, mJSON) {
						errs[i] = "MarshalJSON differs"
					}
					if _, err := m.MarshalYAML(); err != nil {
						errs[i] = "MarshalYAML error"
					}
					ordered.ToMapRecursive(m)
					// the shared signed pipeline
					if b, err := json.Marshal(ps); err != nil || !bytes.Equal(b, psJSON) {
						errs[i] = "pipeline JSON differs"
					}
					if yamlOK && round == 0 {
						if _, err := yaml.Marshal(ps); err != nil {
							errs[i] = "pipeline YAML error: " + err.Error()
						}
					}
					for _, cs := range shared {
						sf := &signature.CommandStepWithInvariants{CommandStep: *cs, RepositoryURL: "repo"}
						if err := signature.Verify(ctx, cs.Signature, kp.Pub, sf, signature.WithEnv(penv)); err != nil {
							errs[i] = "shared step does not verify: " + err.Error()
						}
						if _, err := signature.Sign(ctx, kp.Priv, sf, signature.WithEnv(penv)); err != nil {
							errs[i] = "Sign of shared step: " + err.Error()
						}
						for _, pl := range cs.Plugins {
							pl.FullSource()
						}
					}
					// the shared pipeline nobody has observed before
					if b, err := json.Marshal(pu); err != nil || !bytes.Equal(b, puJSON) {
						errs[i] = "JSON of the shared, so far unobserved pipeline differs from its twin's"
					}
					if round == 0 {
						for _, cs := range fresh {
							if _, err := signature.Sign(ctx, kp.Priv, &signature.CommandStepWithInvariants{CommandStep: *cs, RepositoryURL: "repo"}, signature.WithEnv(penv)); err != nil {
								errs[i] = "Sign of unobserved shared step: " + err.Error()
							}
						}
					}
					// the shared key set
					if vset != nil && len(shared) > 0 {
						cs := shared[0]
						sf := &signature.CommandStepWithInvariants{CommandStep: *cs, RepositoryURL: "repo"}
						if err := signature.Verify(ctx, cs.Signature, vset, sf, signature.WithEnv(penv)); err != nil {
							errs[i] = "shared step does not verify against a key set that holds the right key next to a key without an id: " + err.Error()
						}
						vset.LookupKeyID("no-such-id")
					}
					if kp.PubSet != nil {
						for j := 0; j < kp.PubSet.Len(); j++ {
							k, _ := kp.PubSet.Key(j)
							if err := jwkutil.Validate(k); err != nil {
								errs[i] = "Validate(shared key): " + err.Error()
							}
						}
					}
				}
			}(i)
		}
		close(start2)
		wg.Wait()
		for i, e := range errs {
			if e != "" {
				t.Fatalf("goroutine %d observing shared objects: %s\n%s", i, e, d.YAML)
			}
		}
		if after := gt.Show(canon.Value(m)); after != mBefore {
			t.Fatalf("observers modified the shared ordered map:\nbefore %s\nafter  %s", mBefore, after)
		}
		if after := gt.Show(canon.Pipeline(ps, canon.Raw)); after != psBefore {
			t.Fatalf("observers (marshal / Verify / Sign / FullSource) modified the shared pipeline\n%s", d.YAML)
		}
		if after := gt.Show(canon.Pipeline(ps, canon.Mode{NoSignature: true})); after != psUnsigned {
			t.Fatalf("signing / marshalling / verifying modified the shared pipeline beyond attaching signatures\n%s", d.YAML)
		}
		if after := gt.Show(canon.Pipeline(pu, canon.Raw)); after != puBefore {
			t.Fatalf("observers (marshal / Sign) modified the shared pipeline they were the first to observe\n%s", d.YAML)
		}
		if b, _ := json.Marshal(ps); !bytes.Equal(b, psJSON) {
			t.Fatalf("marshalled form of the shared pipeline changed")
		}
		if fmt.Sprint(penv) != penvBefore {
			t.Fatalf("Sign / Verify modified the shared env map")
		}
		if vset != nil {
			if after, _ := json.Marshal(vset); !bytes.Equal(after, vsetBefore) {
				t.Fatalf("verifying modified the shared key set:\nbefore %s\nafter  %s", vsetBefore, after)
			}
			if after, _ := json.Marshal(kp.PubSet); !bytes.Equal(after, pubSetBefore) {
				t.Fatalf("verifying / validating modified the shared key set:\nbefore %s\nafter  %s", pubSetBefore, after)
			}
		}
		// (c) parse-only rounds on documents that make Parse warn (unknown steps): the warning a parse
		// returns must not depend on what was parsed before or concurrently (no process-wide state)
		wg2 := doc.NewG(t, doc.Config{Anchors: false, Floats: true, UnknownSteps: true, MaxSteps: 6, EmptyKey: true})
		wroot := wg2.Pipeline()
		if wd, werr := doc.Render(wroot, 2, 20000); werr == nil {
			parseText := func() string {
				p, err := pipeline.Parse(bytes.NewReader(wd.YAML))
				if p == nil {
					return fmt.Sprintf("nil pipeline: %v", err)
				}
				return fmt.Sprintf("%d steps; %v", len(p.Steps), err)
			}
			first := parseText()
			if second := parseText(); second != first {
				t.Fatalf("parsing the same document twice gives different results:\n%s\n---\n%s\n%s", first, second, wd.YAML)
			}
			start3 := make(chan struct{})
			outs := make([]string, workers)
			for i := 0; i < workers; i++ {
				wg.Add(1)
				go func(i int) {
					defer wg.Done()
					<-start3
					outs[i] = parseText()
				}(i)
			}
			close(start3)
			wg.Wait()
			for i, o := range outs {
				if o != first {
					t.Fatalf("goroutine %d parsing the same document got a different result than the sequential parse:\n%s\n---\n%s\n%s", i, first, o, wd.YAML)
				}
			}
			if wg2.Feat["unknown-step"] > 0 {
				rec.Class("parse-with-warnings-round")
			}
		}
		// (d) what a parse returns does not depend on what this process parsed before: two documents that
		// differ only in how one mapping key is written - plain, so that it reads as a number or boolean
		// and is canonicalised, or quoted, a string kept as written - parsed one after the other in a
		// drawn order and then concurrently; each must give ITS key, whatever came first
		{
			var keyText string
			switch rapid.IntRange(0, 5).Draw(t, "lookalike") {
			case 0:
				keyText = fmt.Sprintf("0x%X", rapid.IntRange(10, 1<<30).Draw(t, "hex"))
			case 1:
				keyText = fmt.Sprintf("0o%o", rapid.IntRange(8, 1<<30).Draw(t, "oct"))
			case 2:
				keyText = fmt.Sprintf("%d_%03d", rapid.IntRange(1, 999).Draw(t, "us1"), rapid.IntRange(0, 999).Draw(t, "us2"))
			case 3:
				keyText = fmt.Sprintf("0%o", rapid.IntRange(8, 1<<30).Draw(t, "lead0")) // YAML 1.1 octal
			case 4:
				keyText = fmt.Sprintf("+%d", rapid.IntRange(0, 1<<30).Draw(t, "plus"))
			default:
				keyText = rapid.SampledFrom([]string{"True", "FALSE", "TRUE", "False"}).Draw(t, "boolish")
			}
			var kn yaml.Node
			if err := yaml.Unmarshal([]byte(keyText), &kn); err != nil || len(kn.Content) != 1 {
				t.Fatalf("harness: key text %q: %v", keyText, err)
			}
			wantPlain, cerr := doc.CanonKey(kn.Content[0])
			if cerr != nil {
				t.Fatalf("harness: CanonKey(%q): %v", keyText, cerr)
			}
			docs := map[bool]string{
				true:  "steps: []\nx:\n  " + keyText + ": 1\n",
				false: "steps: []\nx:\n  \"" + keyText + "\": 1\n",
			}
			want := map[bool]string{true: wantPlain, false: keyText}
			parseKey := func(plain bool) string {
				p, err := pipeline.Parse(strings.NewReader(docs[plain]))
				if p == nil || (err != nil && !warning.Is(err)) {
					return fmt.Sprintf("parse error: %v", err)
				}
				m, ok := p.RemainingFields["x"].(*ordered.MapSA)
				if !ok {
					return fmt.Sprintf("x is %T", p.RemainingFields["x"])
				}
				got := "<no key>"
				m.Range(func(k string, _ any) error { got = k; return nil })
				return got
			}
			first := rapid.Bool().Draw(t, "plainfirst")
			for _, plain := range []bool{first, !first, first} {
				if got := parseKey(plain); got != want[plain] {
					t.Fatalf("parsing %q gives the key %q, expected %q - after this process had parsed the other spelling of the key (plain first: %v)", docs[plain], got, want[plain], first)
				}
			}
			startD := make(chan struct{})
			gots := make([]string, workers)
			for i := 0; i < workers; i++ {
				wg.Add(1)
				go func(i int) {
					defer wg.Done()
					<-startD
					gots[i] = parseKey(i%2 == 0)
				}(i)
			}
			close(startD)
			wg.Wait()
			for i, got := range gots {
				if got != want[i%2 == 0] {
					t.Fatalf("goroutine %d parsing %q got the key %q, expected %q (another goroutine parsed the other spelling at the same time)", i, docs[i%2 == 0], got, want[i%2 == 0])
				}
			}
			rec.Class("lookalike-key-twins")
		}
		// (e) interpolating without a caller environment (nil): two distinct pipelines, one after the other
		// and then concurrently, each must come out as if it had been given an empty environment of its
		// own - whatever the other one's env block defines (no fallback environment kept between calls)
		{
			name := rapid.SampledFrom([]string{"V1", "V2", "REGION", "K"}).Draw(t, "nilenvname")
			va := rapid.SampledFrom([]string{"from-A", "a", "1"}).Draw(t, "nilenva")
			vb := rapid.SampledFrom([]string{"from-B", "b", "2"}).Draw(t, "nilenvb")
			docA := fmt.Sprintf("env:\n  %s: %s\nsteps:\n  - command: \"echo $%s\"\n", name, va, name)
			docB := fmt.Sprintf("steps:\n  - command: \"echo ${%s:-unset}\"\n", name)
			if rapid.Bool().Draw(t, "nilenvbdefines") {
				docB = fmt.Sprintf("env:\n  %s: %s\nsteps:\n  - command: \"echo ${%s:-unset}\"\n", name, vb, name)
			}
			prefer := rapid.Bool().Draw(t, "nilenvprefer")
			run := func(text string, env pipeline.InterpolationEnv) string {
				p, err := pipeline.Parse(strings.NewReader(text))
				if err != nil {
					return "parse: " + err.Error()
				}
				if err := p.Interpolate(env, prefer); err != nil {
					return "interpolate: " + err.Error()
				}
				return p.Steps[0].(*pipeline.CommandStep).Command
			}
			wantA, wantB := run(docA, envx.New(false, nil)), run(docB, envx.New(false, nil))
			for i, text := range []string{docA, docB, docA, docB} {
				want := map[bool]string{true: wantA, false: wantB}[i%2 == 0]
				if got := run(text, nil); got != want {
					t.Fatalf("Interpolate(nil, %v) on\n%s gives %q, with an empty environment of its own it gives %q (another pipeline was interpolated with a nil environment before)", prefer, text, got, want)
				}
			}
			startE := make(chan struct{})
			outs := make([]string, workers)
			for i := 0; i < workers; i++ {
				wg.Add(1)
				go func(i int) {
					defer wg.Done()
					<-startE
					outs[i] = run(map[bool]string{true: docA, false: docB}[i%2 == 0], nil)
				}(i)
			}
			close(startE)
			wg.Wait()
			for i, got := range outs {
				if want := (map[bool]string{true: wantA, false: wantB})[i%2 == 0]; got != want {
					t.Fatalf("goroutine %d: Interpolate(nil, %v) gives %q, expected %q", i, prefer, got, want)
				}
			}
			rec.Class("nil-environment-pairs")
		}
		nt := tomb && len(shared) >= 1
		rec.Case(ev.Hash(d.YAML, mBefore), nt, "key="+kp.Kind, fmt.Sprintf("tombstones=%v", tomb), fmt.Sprintf("gomaxprocs=%d", runtime.GOMAXPROCS(0)))
		rec.ClassN("goroutine-runs", 2*workers)
		rec.MaybeSample(nt, func() any {
			return map[string]any{"document": string(d.YAML[:min(len(d.YAML), 600)]), "shared_map": mBefore, "signed_steps": len(shared), "key": kp.Kind}
		})
	})
}

func firstWord(s string) string {
	for i, r := range s {
		if r == ':' {
			return s[:i]
		}
	}
	return s
}

// ---------------------------------------------------------------------------
// Distinct steps of ONE parsed pipeline are distinct objects too. When several steps alias the same
// anchored block, each must have got a copy of its own: a job's goroutine that applies its matrix
// permutation to its step writes into that step only.

var recSteps = ev.New("TestPropConcurrentStepsOfOnePipeline", "documents of 2-6 command steps whose unknown fields (agents, extra, nested lists and mappings) alias one or two anchored blocks holding matrix tokens, each step with its own anonymous matrix; one goroutine per step applies that step's permutation to the shared parse result concurrently (race detector on); every step must equal the same step of a fresh parse interpolated alone, and no data race may be reported; non-trivial = >= 2 steps alias the same block; distinct by document text")

func TestPropConcurrentStepsOfOnePipeline(t *testing.T) {
	ev.Check(t, 40, 800, func(t *rapid.T) {
		n := rapid.IntRange(2, 6).Draw(t, "nsteps")
		var b strings.Builder
		b.WriteString("x-blocks:\n")
		b.WriteString("  a: &a\n    queue: \"q-{{matrix}}\"\n    nested:\n      - \"{{matrix}}\"\n      - {zeta: \"z {{ matrix }}\", alpha: 1}\n")
		b.WriteString("  b: &b\n    - \"first {{matrix}}\"\n    - [\"{{matrix}}\", plain]\n")
		b.WriteString("steps:\n")
		aliasing := map[string]int{}
		for i := 0; i < n; i++ {
			fmt.Fprintf(&b, "  - command: \"run {{matrix}}\"\n    matrix: [\"v%da\", \"v%db\"]\n", i, i)
			switch rapid.IntRange(0, 3).Draw(t, "uses") {
			case 0:
				b.WriteString("    agents: *a\n")
				aliasing["a"]++
			case 1:
				b.WriteString("    extra: *b\n")
				aliasing["b"]++
			case 2:
				b.WriteString("    agents: *a\n    extra: *b\n")
				aliasing["a"]++
				aliasing["b"]++
			default:
				b.WriteString("    agents: {own: \"{{matrix}}\", blocks: [*a, *b]}\n")
				aliasing["a"]++
				aliasing["b"]++
			}
		}
		text := b.String()
		parse := func() []*pipeline.CommandStep {
			p, err := pipeline.Parse(strings.NewReader(text))
			if err != nil {
				t.Fatalf("Parse: %v\n%s", err, text)
			}
			var out []*pipeline.CommandStep
			walk(p.Steps, func(cs *pipeline.CommandStep) { out = append(out, cs) })
			if len(out) != n {
				t.Fatalf("parsed %d command steps, wrote %d\n%s", len(out), n, text)
			}
			return out
		}
		perm := func(i int) pipeline.MatrixPermutation {
			return pipeline.MatrixPermutation{"": fmt.Sprintf("v%d%s", i, []string{"a", "b"}[i%2])}
		}
		// reference: each step of a parse of its own, interpolated alone
		want := make([]string, n)
		for i := 0; i < n; i++ {
			steps := parse()
			if err := steps[i].InterpolateMatrixPermutation(perm(i)); err != nil {
				t.Fatalf("step %d: %v\n%s", i, err, text)
			}
			want[i] = gt.Show(canon.Step(steps[i], canon.Raw))
		}
		shared := parse()
		var wg sync.WaitGroup
		start := make(chan struct{})
		errs := make([]error, n)
		for i := 0; i < n; i++ {
			wg.Add(1)
			go func(i int) {
				defer wg.Done()
				<-start
				errs[i] = shared[i].InterpolateMatrixPermutation(perm(i))
			}(i)
		}
		close(start)
		wg.Wait()
		for i := 0; i < n; i++ {
			if errs[i] != nil {
				t.Fatalf("step %d, interpolated concurrently with its siblings: %v\n%s", i, errs[i], text)
			}
			if got := gt.Show(canon.Step(shared[i], canon.Raw)); got != want[i] {
				t.Fatalf("step %d of a pipeline whose steps were interpolated concurrently, each from its own permutation, differs from the same step interpolated alone:\ngot  %s\nwant %s\n%s", i, got, want[i], text)
			}
		}
		nt := aliasing["a"] >= 2 || aliasing["b"] >= 2
		recSteps.Case(ev.HashStr(text), nt, fmt.Sprintf("steps=%d", n))
		recSteps.MaybeSample(nt, func() any { return text })
	})
}

// ---------------------------------------------------------------------------
// A step built in Go rather than parsed holds shapes no parse produces (a nil value list for a declared
// dimension, nil next to empty containers everywhere). Observing it - marshalling, signing, verifying,
// concurrently - must leave exactly those shapes alone.

var recBuilt = ev.New("TestPropSharedStructBuiltStep", "command steps built as structs (sgen, including nil value lists for declared dimensions, nil and empty env / plugins / configs / matrix parts) shared by 16 goroutines that marshal it to JSON and YAML, sign it and verify the signature they made (race detector on); the object-model snapshot taken before the first observer must equal the one taken after the last, nil-exactly; non-trivial = the step has a matrix or a plugin; distinct by step")

func TestPropSharedStructBuiltStep(t *testing.T) {
	ctx := context.Background()
	pool := keys.Pool()
	ev.Check(t, 40, 600, func(t *rapid.T) {
		g := sgen.New(t, sgen.Opts{SimpleStrings: true, NilDims: true})
		step, _ := g.Step()
		penv := g.EnvMap("penv", 3)
		kp := pool[rapid.IntRange(0, 1).Draw(t, "fast")]
		before := gt.Show(canon.Step(step, canon.Raw))
		penvBefore := fmt.Sprint(penv)
		const workers = 16
		var wg sync.WaitGroup
		start := make(chan struct{})
		errs := make([]string, workers)
		for i := 0; i < workers; i++ {
			wg.Add(1)
			go func(i int) {
				defer wg.Done()
				defer func() {
					if x := recover(); x != nil {
						errs[i] = fmt.Sprintf("PANIC: %v", x)
					}
				}()
				<-start
				for round := 0; round < 2; round++ {
					if _, err := json.Marshal(step); err != nil {
						errs[i] = "json.Marshal: " + err.Error()
					}
					if _, err := yaml.Marshal(step); err != nil && !strings.Contains(err.Error(), "did not find expected") {
						errs[i] = "yaml.Marshal: " + err.Error()
					}
					sf := &signature.CommandStepWithInvariants{CommandStep: *step, RepositoryURL: "repo"}
					sig, err := signature.Sign(ctx, kp.Priv, sf, signature.WithEnv(penv))
					if err != nil {
						errs[i] = "Sign: " + err.Error()
						continue
					}
					if err := signature.Verify(ctx, sig, kp.Pub, sf, signature.WithEnv(penv)); err != nil {
						errs[i] = "Verify of the signature just made: " + err.Error()
					}
				}
			}(i)
		}
		close(start)
		wg.Wait()
		for i, e := range errs {
			if e != "" {
				t.Fatalf("goroutine %d observing the shared step: %s\nstep: %s", i, e, before)
			}
		}
		if after := gt.Show(canon.Step(step, canon.Raw)); after != before {
			t.Fatalf("marshalling / signing / verifying modified the step they observe:\nbefore %s\nafter  %s", before, after)
		}
		if fmt.Sprint(penv) != penvBefore {
			t.Fatalf("Sign / Verify modified the shared env map")
		}
		nt := step.Matrix != nil || len(step.Plugins) > 0
		recBuilt.Case(ev.HashStr(before), nt)
		recBuilt.MaybeSample(nt, func() any { return before })
	})
}
