// C03 - parse then marshal yields the documented normal form with no data loss.
package c03

import (
	"bytes"
	"encoding/json"
	"errors"
	"fmt"
	"strings"
	"testing"

	pipeline "github.com/buildkite/go-pipeline"
	"gopkg.in/yaml.v3"
	"pgregory.net/rapid"

	"verif/harness/internal/doc"
	"verif/harness/internal/ev"
	"verif/harness/internal/gt"
	"verif/harness/internal/probe"
	"verif/harness/internal/strs"
)

func TestMain(m *testing.M) { ev.Main(m) }

var rec = ev.New("TestPropNormalForm", "grammar-generated well-formed pipeline documents (all step kinds and shorthands, alias-key combinations, unknown extras with nested values of every scalar kind, anchors/aliases/merges, block/flow/quoting styles) rendered as YAML and as JSON; decode(json.Marshal(Parse(text))) and decode(yaml.Marshal(Parse(text))) must equal the reference normal form of the resolved document in both directions, with no error or warning; non-trivial = document exercises >= 2 of {alias-key combination, shorthand reached via merge/alias, unknown keys inside a nested group, legacy mapping plugins, matrix with adjustments, cache shorthand}; distinct by hash of the YAML text")

func genConfig(t *rapid.T) doc.Config {
	return doc.Config{
		Anchors:      rapid.IntRange(0, 2).Draw(t, "anchors") > 0,
		Timestamps:   true,
		BigNums:      true,
		Floats:       true,
		BigMaps:      rapid.Bool().Draw(t, "bigmaps"),
		EmptyKey:     true,
		MergeKeyStr:  true,
		BothCommands: true,
		Signature:    true,
	}
}

// checkLeg parses text and compares both marshalled forms with the expectation.
func checkLeg(leg string, text []byte, ex *doc.Expect, yamlOutOK bool) error {
	p, err := pipeline.Parse(bytes.NewReader(text))
	if err != nil {
		return fmt.Errorf("[%s input] Parse returned %v for a well-formed document", leg, err)
	}
	if p == nil {
		return fmt.Errorf("[%s input] Parse returned nil pipeline", leg)
	}
	var want []*gt.Node
	for _, tr := range ex.Trees {
		want = append(want, doc.Canon(tr, ex.Steps))
	}
	match := func(out string, got *gt.Node, opt gt.Opt) error {
		got = doc.Canon(got, ex.Steps)
		var first string
		for _, w := range want {
			d := gt.Diff(w, got, opt)
			if d == "" {
				return nil
			}
			if first == "" {
				first = d
			}
		}
		return fmt.Errorf("[%s input, %s output] marshalled pipeline differs from the normal form: %s\nexpected: %s\ngot:      %s", leg, out, first, gt.Show(want[0]), gt.Show(got))
	}
	jb, err := json.Marshal(p)
	if err != nil {
		return fmt.Errorf("[%s input] json.Marshal: %v", leg, err)
	}
	jn, err := gt.FromJSON(jb)
	if err != nil {
		return fmt.Errorf("[%s input] JSON output does not parse: %v\n%s", leg, err, jb)
	}
	if err := match("JSON", jn, gt.Opt{TimeAsString: true}); err != nil {
		return err
	}
	if !yamlOutOK {
		return nil
	}
	yb, err := yaml.Marshal(p)
	if err != nil {
		return fmt.Errorf("[%s input] yaml.Marshal: %v", leg, err)
	}
	yn, err := gt.FromYAML(yb)
	if err != nil {
		return fmt.Errorf("[%s input] YAML output does not parse: %v\n%s", leg, err, yb)
	}
	return match("YAML", yn, gt.Opt{TimeAsString: true})
}

func hasMergeKeyStr(n *gt.Node) bool {
	return doc.HasKey(n, func(k string) bool { return k == "<<" })
}

func runCase(t *rapid.T) {
	cfg := genConfig(t)
	g := doc.NewG(t, cfg)
	root := g.Pipeline()
	d, err := doc.Render(root, rapid.SampledFrom([]int{2, 4}).Draw(t, "indent"), 20000)
	if err != nil {
		if errors.Is(err, doc.ErrRenderFault) {
			rec.Excluded("render-fault")
		} else {
			rec.Excluded("outside-model")
		}
		return
	}
	ex := doc.NF(d.Meaning, g.CanonSource)
	if ex.Excluded != "" {
		rec.Excluded("excluded: " + ex.Excluded)
		return
	}
	yamlOut := true
	unsafe := doc.HasString(d.Meaning, func(s string) bool { return !strs.YAMLLegOK(s) })
	for _, tr := range ex.Trees {
		// derived strings too (e.g. a command joined from a list whose first item is empty)
		unsafe = unsafe || doc.HasString(tr, func(s string) bool { return !strs.YAMLLegOK(s) })
	}
	if unsafe {
		yamlOut = false
		rec.Excluded("yaml-output-leg: multi-line string beginning with white space")
	}
	if ev.Known("F9") && hasMergeKeyStr(d.Meaning) {
		yamlOut = false
		rec.Excluded("yaml-output-leg: mapping key << (known finding F9)")
	}
	if err := checkLeg("YAML", d.YAML, ex, yamlOut); err != nil {
		t.Fatalf("%v\n---- document ----\n%s", err, d.YAML)
	}
	jtext, jm, err := d.JSON()
	if err != nil {
		rec.Excluded("json-leg: not representable")
	} else {
		jex := doc.NF(jm, g.CanonSource)
		if jex.Excluded == "" {
			if err := checkLeg("JSON", jtext, jex, yamlOut); err != nil {
				t.Fatalf("%v\n---- document ----\n%s", err, jtext)
			}
		}
	}
	// non-triviality
	score := 0
	f := ex.Feat
	if f["alias-combination"] > 0 {
		score++
	}
	if g.Feat["merge:cmdstep"]+g.Feat["alias:step:command"]+g.Feat["alias:plugins"]+g.Feat["alias:matrix"]+g.Feat["alias:cache"]+g.Feat["alias:cmdlist"]+g.Feat["merge:stepenv"]+g.Feat["merge:env"] > 0 {
		score++
	}
	if g.Feat["nested-group"] > 0 {
		score++
	}
	if f["legacy-plugins-map"] > 0 {
		score++
	}
	if f["matrix-adjustments"] > 0 {
		score++
	}
	if f["cache-shorthand"] > 0 {
		score++
	}
	nt := score >= 2
	cls := []string{fmt.Sprintf("score=%d", score)}
	for k := range f {
		if strings.HasPrefix(k, "kind:") {
			cls = append(cls, k)
		}
	}
	if g.Feat["merge"] > 0 {
		cls = append(cls, "has-merge")
	}
	if g.Feat["alias"] > 0 {
		cls = append(cls, "has-alias")
	}
	rec.Case(ev.HashBytes(d.YAML), nt, cls...)
	rec.MaybeSample(nt, func() any { return string(d.YAML[:min(len(d.YAML), 1500)]) })
}

func TestPropNormalForm(t *testing.T) {
	ev.Check(t, 1500, 20000, runCase)
}

// TestKnownFindings re-confirms the listed known findings that touch C03.
func TestKnownFindings(t *testing.T) {
	ev.SkipIfReplayingOther(t)
	if ev.Shard() == 0 {
		probe.F9("C03")
	}
}

// FuzzNormalForm drives the same property through Go's coverage-guided fuzzer (thorough tier):
// the fuzz input is the bit stream rapid draws from, so mutation is guided towards generator
// choices that reach new code in the parser / marshallers.
func FuzzNormalForm(f *testing.F) {
	// seed inputs: deterministic pseudo-random bit streams of a few sizes (a xorshift with fixed
	// constants - the property itself never calls an RNG)
	x := uint64(0x9e3779b97f4a7c15)
	for i := 0; i < 24; i++ {
		b := make([]byte, 512<<(i%4))
		for j := range b {
			x ^= x << 13
			x ^= x >> 7
			x ^= x << 17
			b[j] = byte(x >> 11)
		}
		f.Add(b)
	}
	f.Fuzz(rapid.MakeFuzz(runCase))
}

// ---------------------------------------------------------------------------
// Documents built by shape: very deep and very large ones (see doc/shapes.go). The grammar-sized
// documents above never come near a limit on nesting or size; a well-formed document beyond such a
// limit must still parse to its normal form, whole.

var recDeep = ev.New("TestPropDeepDocuments", "well-formed documents nested 1-320 levels deep (nested groups and / or data inside an unknown field or plugin config; half of the depths within 6 of a round number), ending in every shorthand that normalisation rewrites: Parse returns no error or warning and both marshalled forms equal the normal-form model of the document; non-trivial = deeper than 40 levels; distinct by text")

func TestPropDeepDocuments(t *testing.T) {
	ev.Check(t, 300, 3000, func(t *rapid.T) {
		dd := doc.GenDeep(t)
		meaning, err := gt.FromYAML(dd.Text)
		if err != nil {
			t.Fatalf("harness: %v", err)
		}
		ex := doc.NF(meaning, func(s string) (string, bool) { c, ok := dd.Canon[s]; return c, ok })
		if ex.Excluded != "" {
			recDeep.Excluded("excluded: " + ex.Excluded)
			return
		}
		if err := checkLeg("YAML", dd.Text, ex, true); err != nil {
			t.Fatalf("%v\n---- document (depth %d) ----\n%s", err, dd.Depth, dd.Text[:min(len(dd.Text), 600)])
		}
		recDeep.Case(ev.HashBytes(dd.Text), dd.Depth > 40, dd.Classes()...)
		recDeep.MaybeSample(dd.Depth > 40, func() any {
			return map[string]any{"depth": dd.Depth, "groups": dd.Groups, "data_levels": dd.DataLevels, "tail": dd.Tail}
		})
	})
}

var recLarge = ev.New("TestPropLargeDocuments", "well-formed documents of 64 KiB - 16 MiB (bulk in plain, literal-block or double-quoted command scalars or in very many short steps, further steps after the bulk): Parse returns no error or warning and the JSON and YAML output hold exactly the steps written, in order, each command text byte for byte, plus the env block; non-trivial = larger than 1 MiB; distinct by size, shape and step count")

func TestPropLargeDocuments(t *testing.T) {
	ev.Check(t, 10, 200, func(t *rapid.T) {
		ld := doc.GenLarge(t)
		p, err := pipeline.Parse(strings.NewReader(ld.Text))
		if err != nil || p == nil {
			t.Fatalf("Parse of a well-formed %d-byte document (shape %d, %d steps) returned %v", len(ld.Text), ld.Shape, len(ld.Want), err)
		}
		check := func(out string, root *gt.Node) {
			steps, ok := root.Get("steps")
			if !ok || steps.Kind != gt.Seq || len(steps.Items) != len(ld.Want) {
				n := -1
				if ok {
					n = len(steps.Items)
				}
				t.Fatalf("%s output of a %d-byte document (shape %d) holds %d steps, the document %d", out, len(ld.Text), ld.Shape, n, len(ld.Want))
			}
			for i, w := range ld.Want {
				it := steps.Items[i]
				if w == "\x00wait" {
					if it.Kind != gt.Str || it.S != "wait" {
						t.Fatalf("%s output: step %d is %s, the document says `wait`", out, i, gt.Show(it)[:min(len(gt.Show(it)), 200)])
					}
					continue
				}
				c, has := it.Get("command")
				if it.Kind != gt.Map || !has || c.Kind != gt.Str || len(it.Keys) != 1 {
					t.Fatalf("%s output: step %d is not {command: ...}", out, i)
				}
				if c.S != w {
					d := 0
					for d < len(w) && d < len(c.S) && w[d] == c.S[d] {
						d++
					}
					t.Fatalf("%s output: command of step %d differs from the document's (lengths %d vs %d, first difference at byte %d)", out, i, len(c.S), len(w), d)
				}
			}
			if strings.HasPrefix(ld.Text, "env:") {
				e, ok := root.Get("env")
				if v, has := e.Get("A"); !ok || !has || v.S != "b" {
					t.Fatalf("%s output: the env block is not {A: b}", out)
				}
			}
		}
		jb, err := json.Marshal(p)
		if err != nil {
			t.Fatalf("json.Marshal: %v", err)
		}
		jn, err := gt.FromJSON(jb)
		if err != nil {
			t.Fatalf("JSON output does not parse: %v", err)
		}
		check("JSON", jn)
		if len(ld.Text) <= 1<<22 {
			yb, err := yaml.Marshal(p)
			if err != nil {
				t.Fatalf("yaml.Marshal: %v", err)
			}
			yn, err := gt.FromYAML(yb)
			if err != nil {
				t.Fatalf("YAML output does not parse: %v", err)
			}
			check("YAML", yn)
		}
		nt := len(ld.Text) > 1<<20
		recLarge.Case(ev.Hash(ld.Size, ld.Shape, len(ld.Want)), nt, ld.Classes()...)
		recLarge.MaybeSample(nt, func() any { return map[string]any{"bytes": len(ld.Text), "shape": ld.Shape, "steps": len(ld.Want)} })
	})
}
