// C17 - plugin source canonicalisation follows the documented rules and is idempotent.
package c17

import (
	"encoding/json"
	"strings"
	"testing"

	pipeline "github.com/buildkite/go-pipeline"
	"github.com/buildkite/go-pipeline/ordered"
	"gopkg.in/yaml.v3"
	"pgregory.net/rapid"

	"verif/harness/internal/ev"
	"verif/harness/internal/gt"
	"verif/harness/internal/plug"
)

func TestMain(m *testing.M) { ev.Main(m) }

var rec = ev.New("TestPropCanonicalSource", "sources built from the documented structured forms (name[#ref], org/name[#ref], >=3 segments, POSIX/Windows paths, scheme URLs, scp-style, drive letters, already-canonical); expected canonical form computed from the structure; non-trivial = ref containing '/', or org/name that looks like a host, or exactly 3 segments; distinct by source text")

func singleKey(n *gt.Node) (string, *gt.Node, bool) {
	if n == nil || n.Kind != gt.Map || len(n.Keys) != 1 {
		return "", nil, false
	}
	return n.Keys[0], n.Vals[0], true
}

func checkSource(t interface{ Fatalf(string, ...any) }, s plug.Src, cfg any) {
	p := &pipeline.Plugin{Source: s.Text, Config: cfg}
	got := p.FullSource()
	if got != s.Canon {
		t.Fatalf("FullSource(%q) = %q, documented rule gives %q (class %s)", s.Text, got, s.Canon, s.Class)
	}
	// idempotent
	if again := (&pipeline.Plugin{Source: got}).FullSource(); again != got {
		t.Fatalf("FullSource not idempotent: %q -> %q -> %q", s.Text, got, again)
	}
	if p.Source != s.Text {
		t.Fatalf("FullSource modified Source: %q -> %q", s.Text, p.Source)
	}
	// JSON form: single-entry object keyed by the canonical source
	jb, err := json.Marshal(p)
	if err != nil {
		t.Fatalf("json.Marshal(plugin %q): %v", s.Text, err)
	}
	jn, err := gt.FromJSON(jb)
	if err != nil {
		t.Fatalf("plugin JSON does not parse: %v: %s", err, jb)
	}
	k, _, ok := singleKey(jn)
	if !ok || k != s.Canon {
		t.Fatalf("json.Marshal(plugin %q) = %s, want single key %q", s.Text, jb, s.Canon)
	}
	// YAML form
	yb, err := yaml.Marshal(p)
	if err != nil {
		t.Fatalf("yaml.Marshal(plugin %q): %v", s.Text, err)
	}
	yn, err := gt.FromYAML(yb)
	if err != nil {
		t.Fatalf("plugin YAML does not parse: %v: %s", err, yb)
	}
	k, _, ok = singleKey(yn)
	if !ok || k != s.Canon {
		t.Fatalf("yaml.Marshal(plugin %q) = %s, want single key %q", s.Text, yb, s.Canon)
	}
	// re-parse the marshalled plugin list and marshal again: a no-op. (JSON is read as YAML, and YAML
	// limits an implicit mapping key to 1024 characters: a longer source cannot be a key of the input
	// at all - a limit of the format, not of the canonicalisation rule)
	if len(s.Canon) > 1000 {
		rec.Excluded("re-parse leg: source longer than YAML's 1024-character key limit")
		return
	}
	list := pipeline.Plugins{p}
	lb, err := json.Marshal(list)
	if err != nil {
		t.Fatalf("json.Marshal(plugins): %v", err)
	}
	var back pipeline.Plugins
	if err := json.Unmarshal(lb, &back); err != nil {
		t.Fatalf("Plugins.UnmarshalJSON(%s): %v", lb, err)
	}
	if len(back) != 1 || back[0].Source != s.Canon {
		t.Fatalf("re-parsed plugin list %s has sources %v, want [%q]", lb, sources(back), s.Canon)
	}
	lb2, err := json.Marshal(back)
	if err != nil || string(lb2) != string(lb) {
		t.Fatalf("marshal -> parse -> marshal is not a no-op: %s vs %s (err %v)", lb, lb2, err)
	}
}

func sources(ps pipeline.Plugins) []string {
	var out []string
	for _, p := range ps {
		out = append(out, p.Source)
	}
	return out
}

func TestPropCanonicalSource(t *testing.T) {
	ev.Check(t, 20000, 1000000, func(t *rapid.T) {
		s := plug.Gen().Draw(t, "src")
		var cfg any
		// whatever the plugin is configured with, its identity is the canonical source: no config, a
		// mapping, an empty mapping, a list, a bare scalar (`docker#v1: true`), typed and ordered maps
		// as programs build them
		switch rapid.IntRange(0, 11).Draw(t, "cfg") {
		case 1, 2:
			cfg = map[string]any{"image": "alpine", "n": 1}
		case 3:
			cfg = map[string]any{}
		case 4:
			cfg = rapid.SampledFrom([]any{true, false, "always", "", 5, 0, 0.5}).Draw(t, "scalarcfg")
		case 5:
			cfg = []any{"a", 1}
		case 6:
			cfg = []any{}
		case 7:
			cfg = map[string]string{"image": "alpine"}
		case 8:
			cfg = ordered.MapFromItems(ordered.TupleSA{Key: "image", Value: "alpine"})
		case 9:
			cfg = map[string]any{"nested": map[string]any{"deep": []any{map[string]any{"k": nil}}}}
		}
		checkSource(t, s, cfg)
		// what a source canonicalises to does not depend on the sources seen before it: a sibling that
		// shares a long beginning with this one (same plugin, the next version) goes through right after.
		// The names are stretched so that beginnings of every length up to ~150 bytes are shared.
		if (s.Class == "name" || s.Class == "org/name") && strings.Contains(s.Text, "#") && rapid.IntRange(0, 2).Draw(t, "sibling") == 0 {
			pad := strings.Repeat("n", rapid.IntRange(0, 150).Draw(t, "pad"))
			at := strings.Index(s.Text, "#")
			cat := strings.Index(s.Canon, "-buildkite-plugin#")
			if at > 0 && cat > 0 {
				first := plug.Src{Text: s.Text[:at] + pad + s.Text[at:], Canon: s.Canon[:cat] + pad + s.Canon[cat:], Class: s.Class}
				second := plug.Src{Text: first.Text + "9", Canon: first.Canon + "9", Class: s.Class}
				checkSource(t, first, cfg)
				checkSource(t, second, cfg)
				checkSource(t, first, cfg)
				rec.Class("sibling-sharing-a-long-beginning")
			}
		}
		rec.Case(ev.HashStr(s.Text), s.Tricky, "class="+s.Class)
		rec.MaybeSample(s.Tricky, func() any { return s })
	})
}

// Documented examples as a fixed regression table (bypasses the library).
func TestCorpusExamples(t *testing.T) {
	ev.SkipIfReplayingOther(t)
	for _, s := range []plug.Src{
		{Text: "docker", Canon: "github.com/buildkite-plugins/docker-buildkite-plugin"},
		{Text: "docker#v1.2.3", Canon: "github.com/buildkite-plugins/docker-buildkite-plugin#v1.2.3"},
		{Text: "my-org/docker#main", Canon: "github.com/my-org/docker-buildkite-plugin#main"},
		{Text: "docker#feature/x", Canon: "github.com/buildkite-plugins/docker-buildkite-plugin#feature/x"},
		{Text: "github.com/my-org/docker-buildkite-plugin#v1", Canon: "github.com/my-org/docker-buildkite-plugin#v1"},
		{Text: "./local/plugin", Canon: "./local/plugin"},
		{Text: "/abs/plugin", Canon: "/abs/plugin"},
		{Text: `\\server\share\plugin`, Canon: `\\server\share\plugin`},
		{Text: `C:\plugins\x`, Canon: `C:\plugins\x`},
		{Text: "https://github.com/o/r.git#v1", Canon: "https://github.com/o/r.git#v1"},
		{Text: "ssh://git@github.com/o/r.git", Canon: "ssh://git@github.com/o/r.git"},
		{Text: "git@github.com:o/r.git#v2", Canon: "git@github.com:o/r.git#v2"},
		{Text: "file:///a/b", Canon: "file:///a/b"},
	} {
		checkSource(t, s, nil)
	}
}
