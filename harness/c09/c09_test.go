// C09 - the normal form is a fixpoint, the same via JSON and YAML, and deterministic.
package c09

import (
	"bytes"
	"encoding/json"
	"errors"
	"fmt"
	"strings"
	"testing"

	pipeline "github.com/buildkite/go-pipeline"
	"github.com/buildkite/go-pipeline/warning"
	"gopkg.in/yaml.v3"
	"pgregory.net/rapid"

	"verif/harness/internal/canon"
	"verif/harness/internal/doc"
	"verif/harness/internal/ev"
	"verif/harness/internal/gt"
	"verif/harness/internal/probe"
	"verif/harness/internal/strs"
)

func TestMain(m *testing.M) { ev.Main(m) }

var lookalike = map[string]bool{}

func init() {
	for _, s := range []string{"yes", "no", "on", "off", "y", "n", "Y", "N", "true", "false", "True", "FALSE", "null", "Null", "~", "0x1f", "0o7", "0b101", "017", "1e3", "1_000", ".5", "+1", "-0", "1.", "2002-08-15", "2001-12-14t21:59:43.10-05:00", "12:30:45", "1:20", "<<", "=", ".nan", ".inf", "-.inf", "0", "1", "-1", "123", "1.5"} {
		lookalike[s] = true
	}
}

// normSources rewrites plugin sources (in a canon tree) to their canonical
// form, known by rule from the generator: a round trip spells sources canonically.
func normSources(n *gt.Node, canonSrc func(string) (string, bool)) *gt.Node {
	c := n.Clone()
	gt.Walk(c, func(_ string, x *gt.Node) {
		if x.Kind == gt.Map && len(x.Keys) == 2 && x.Keys[0] == "source" && x.Keys[1] == "config" && x.Vals[0].Kind == gt.Str {
			if cs, ok := canonSrc(x.Vals[0].S); ok {
				x.Vals[0] = gt.StrN(cs)
			}
		}
	})
	return c
}

func safeParse(b []byte) (p *pipeline.Pipeline, err error) {
	defer func() {
		if r := recover(); r != nil {
			err = fmt.Errorf("PANIC: %v", r)
			p = nil
		}
	}()
	return pipeline.Parse(bytes.NewReader(b))
}

var rec = ev.New("TestPropFixpoint", "grammar-generated pipeline documents (as C03, plus unknown steps, empty matrices, strings of domain S incl. YAML type look-alikes), YAML and JSON input; p = Parse(text); Parse(json.Marshal(p)) and Parse(yaml.Marshal(p)) must equal p structurally (object-model walk: same step kinds, values by the number/timestamp conventions, same order in ordered maps), return no error or warning when the first parse returned none, a second round must change nothing, CommandStep.UnmarshalJSON and Plugins.UnmarshalJSON must reproduce each command step / plugin list, and json/yaml marshalling must be byte-identical over 5 repetitions; non-trivial = document contains a string that would change type if written plain (yes, 0x1f, 2002-08-15, ~, multi-line ...) or a shape-reducing form (cache: false, simple matrix list, scalar step); distinct by hash of the YAML text")

func genConfig(t *rapid.T) doc.Config {
	return doc.Config{
		Anchors:      rapid.IntRange(0, 2).Draw(t, "anchors") == 0,
		Timestamps:   true,
		BigNums:      true,
		Floats:       true,
		BigMaps:      rapid.Bool().Draw(t, "bigmaps"),
		EmptyKey:     true,
		MergeKeyStr:  true,
		EmptyMatrix:  true,
		OddSources:   true,
		UnknownSteps: rapid.IntRange(0, 3).Draw(t, "unknown") == 0,
		BothCommands: true,
		Signature:    true,
		MixedKinds:   true,
	}
}

func walkCommandSteps(ss pipeline.Steps, f func(*pipeline.CommandStep)) {
	for _, s := range ss {
		switch t := s.(type) {
		case *pipeline.CommandStep:
			f(t)
		case *pipeline.GroupStep:
			walkCommandSteps(t.Steps, f)
		}
	}
}

func checkFixpoint(t *rapid.T, leg string, text []byte, g *doc.G) (nontrivial bool, ok bool) {
	p, err := safeParse(text)
	if err != nil && !warning.Is(err) {
		// a hard failure on a generated document: only C03 / C13 judge that; here nothing can be compared
		curRec.Excluded("first parse hard-failed (not this property's business)")
		return false, false
	}
	clean := err == nil
	ref := normSources(canon.Pipeline(p, canon.Norm), g.CanonSource)
	unsafe := func(s string) bool { return !strs.YAMLLegOK(s) }
	yamlOK := !doc.HasString(ref, unsafe)
	if !yamlOK {
		curRec.Excluded("yaml-leg: multi-line string beginning with white space")
	}
	if ev.Known("F9") && doc.HasKey(ref, func(k string) bool { return k == "<<" }) {
		yamlOK = false
		curRec.Excluded("yaml-leg: mapping key << (known finding F9)")
	}
	if ev.Known("F10") && probe.F10Class(p.Steps) {
		curRec.Excluded("empty key/label next to an alias (known finding F10)")
		return false, false
	}
	// determinism of marshalling
	jb, err := json.Marshal(p)
	if err != nil {
		var uv *json.UnsupportedValueError
		if errors.As(err, &uv) {
			curRec.Excluded("non-finite float (C13 / F7)")
			return false, false
		}
		t.Fatalf("[%s] json.Marshal: %v\n%s", leg, err, text)
	}
	for i := 0; i < 4; i++ {
		jb2, _ := json.Marshal(p)
		if !bytes.Equal(jb, jb2) {
			t.Fatalf("[%s] json.Marshal is not deterministic:\n%s\n%s", leg, jb, jb2)
		}
	}
	var yb []byte
	if yamlOK {
		yb, err = yaml.Marshal(p)
		if err != nil {
			t.Fatalf("[%s] yaml.Marshal: %v\n%s", leg, err, text)
		}
		detOK := true
		if ev.Known("F11") && doc.HasKey(ref, probe.LongDigitRun) {
			detOK = false
			curRec.Excluded("yaml byte-determinism: key with an overflowing digit run (known finding F11)")
		}
		for i := 0; i < 4 && detOK; i++ {
			yb2, _ := yaml.Marshal(p)
			if !bytes.Equal(yb, yb2) {
				t.Fatalf("[%s] yaml.Marshal is not deterministic:\n%s\n%s", leg, yb, yb2)
			}
		}
	}
	reparse := func(format string, b []byte) *pipeline.Pipeline {
		q, qerr := safeParse(b)
		if qerr != nil && !warning.Is(qerr) {
			t.Fatalf("[%s input] re-parsing the %s marshalling fails: %v\n---- %s ----\n%s\n---- document ----\n%s", leg, format, qerr, format, b, text)
		}
		if clean && qerr != nil {
			t.Fatalf("[%s input] first parse was clean but re-parsing the %s marshalling warns: %v\n---- %s ----\n%s\n---- document ----\n%s", leg, format, qerr, format, b, text)
		}
		got := normSources(canon.Pipeline(q, canon.Norm), g.CanonSource)
		if d := gt.Diff(ref, got, gt.Opt{TimeAsString: true}); d != "" {
			t.Fatalf("[%s input] Parse(%s.Marshal(p)) differs from p: %s\n---- %s ----\n%s\n---- document ----\n%s", leg, format, d, format, b, text)
		}
		return q
	}
	pj := reparse("json", jb)
	// second round changes nothing
	jb2, err := json.Marshal(pj)
	if err != nil {
		t.Fatalf("[%s] json.Marshal (second round): %v", leg, err)
	}
	// a second round changes nothing (object-model comparison; the bytes may legitimately differ in
	// spellings the library documents as equivalent, e.g. "setup": null vs {})
	reparse("json (second round)", jb2)
	if yamlOK {
		py := reparse("yaml", yb)
		yb2, err := yaml.Marshal(py)
		if err != nil {
			t.Fatalf("[%s] yaml.Marshal (second round): %v", leg, err)
		}
		reparse("yaml (second round)", yb2)
		// both formats carry the same data
		if d := gt.Diff(normSources(canon.Pipeline(pj, canon.Norm), g.CanonSource), normSources(canon.Pipeline(py, canon.Norm), g.CanonSource), gt.Opt{TimeAsString: true}); d != "" {
			t.Fatalf("[%s input] JSON and YAML marshalling carry different data: %s", leg, d)
		}
	}
	// stand-alone decoders
	walkCommandSteps(p.Steps, func(cs *pipeline.CommandStep) {
		b, err := json.Marshal(cs)
		if err != nil {
			t.Fatalf("json.Marshal(step): %v", err)
		}
		var back pipeline.CommandStep
		if err := json.Unmarshal(b, &back); err != nil {
			t.Fatalf("[%s input] CommandStep.UnmarshalJSON fails on the step's own JSON: %v\n%s", leg, err, b)
		}
		want := normSources(canon.Step(cs, canon.Norm), g.CanonSource)
		got := normSources(canon.Step(&back, canon.Norm), g.CanonSource)
		if d := gt.Diff(want, got, gt.Opt{TimeAsString: true}); d != "" {
			t.Fatalf("[%s input] CommandStep.UnmarshalJSON(json.Marshal(step)) differs: %s\n%s", leg, d, b)
		}
		if len(cs.Plugins) > 0 {
			pb, err := json.Marshal(cs.Plugins)
			if err != nil {
				t.Fatalf("json.Marshal(plugins): %v", err)
			}
			var pls pipeline.Plugins
			if err := json.Unmarshal(pb, &pls); err != nil {
				t.Fatalf("[%s input] Plugins.UnmarshalJSON fails on the list's own JSON: %v\n%s", leg, err, pb)
			}
			w := normSources(canon.Plugins(cs.Plugins, canon.Norm), g.CanonSource)
			gp := normSources(canon.Plugins(pls, canon.Norm), g.CanonSource)
			if d := gt.Diff(w, gp, gt.Opt{TimeAsString: true}); d != "" {
				t.Fatalf("[%s input] Plugins.UnmarshalJSON(json.Marshal(plugins)) differs: %s\n%s", leg, d, pb)
			}
		}
	})
	// non-triviality
	gt.Walk(ref, func(_ string, x *gt.Node) {
		if x.Kind == gt.Str && (lookalike[x.S] || bytes.ContainsRune([]byte(x.S), '\n')) {
			nontrivial = true
		}
	})
	if g.Feat["cache-false"]+g.Feat["matrix-list"]+g.Feat["scalar-step"]+g.Feat["matrix-setup-list"] > 0 {
		nontrivial = true
	}
	return nontrivial, true
}

// curRec: the evidence record exclusions made inside checkFixpoint go to (tests run one after the other)
var curRec = rec

func TestPropFixpoint(t *testing.T) {
	curRec = rec
	ev.Check(t, 900, 12000, fixpointCase)
}

// Deeply nested documents. Normalisation deepens some short forms (a bare step list gains `steps`, a
// bare-string plugin becomes a one-entry mapping, `cache: path` becomes {paths: [path]}, a simple
// matrix list stays a list), so any limit on nesting that applies to the text as written rather than
// to the normal form lets a document in and then refuses the library's own output.
var recDeep = ev.New("TestPropDeepNesting", "documents nested 1-320 levels deep (half of the depths drawn uniformly, half within 6 of a round number: 16, 32, 50, 64, 100, 128, 200, 250, 256), the depth made of nested group steps and/or of sequences and mappings inside an unknown field, a plugin config or an env-less step, ending in a form that normalisation deepens (bare-string plugin, `cache: path`, bare step list) or does not; same oracle as TestPropFixpoint (a document the first parse refuses is excluded and counted); non-trivial = deeper than 40 levels and ending in a deepening form; distinct by hash of the text")

func TestPropDeepNesting(t *testing.T) {
	curRec = recDeep
	defer func() { curRec = rec }()
	ev.Check(t, 600, 4000, func(t *rapid.T) {
		dd := doc.GenDeep(t)
		g := doc.NewG(t, doc.Config{})
		for k, v := range dd.Canon {
			g.Canon[k] = v
		}
		_, ok := checkFixpoint(t, "YAML", dd.Text, g)
		if !ok {
			return
		}
		nt := dd.Depth > 40 && dd.Deepening
		recDeep.Case(ev.HashBytes(dd.Text), nt, dd.Classes()...)
		recDeep.MaybeSample(nt, func() any {
			return map[string]any{"depth": dd.Depth, "groups": dd.Groups, "data_levels": dd.DataLevels, "tail": dd.Tail, "text_prefix": string(dd.Text[:min(len(dd.Text), 300)])}
		})
	})
}

// FuzzFixpoint: the same property under Go's coverage-guided fuzzer (thorough tier); the fuzz
// input is the bit stream rapid draws from.
func FuzzFixpoint(f *testing.F) {
	x := uint64(0x2545f4914f6cdd1d)
	for i := 0; i < 24; i++ {
		b := make([]byte, 512<<(i%4))
		for j := range b {
			x ^= x << 13
			x ^= x >> 7
			x ^= x << 17
			b[j] = byte(x >> 11)
		}
		f.Add(b)
	}
	f.Fuzz(rapid.MakeFuzz(fixpointCase))
}

func fixpointCase(t *rapid.T) {
	{
		g := doc.NewG(t, genConfig(t))
		root := g.Pipeline()
		d, err := doc.Render(root, rapid.SampledFrom([]int{2, 4}).Draw(t, "indent"), 20000)
		if err != nil {
			rec.Excluded("render-fault-or-outside")
			return
		}
		nt, ok := checkFixpoint(t, "YAML", d.YAML, g)
		if !ok {
			return
		}
		if jt, _, err := d.JSON(); err == nil {
			nt2, _ := checkFixpoint(t, "JSON", jt, g)
			nt = nt || nt2
		}
		cls := []string{}
		if g.Feat["unknown-step"] > 0 {
			cls = append(cls, "unknown-step")
		}
		if g.Feat["matrix-empty"] > 0 {
			cls = append(cls, "empty-matrix")
		}
		if g.Feat["alias"]+g.Feat["merge"] > 0 {
			cls = append(cls, "anchors")
		}
		rec.Case(ev.HashBytes(d.YAML), nt, cls...)
		rec.MaybeSample(nt, func() any { return string(d.YAML[:min(len(d.YAML), 1200)]) })
	}
}

func TestKnownFindings(t *testing.T) {
	ev.SkipIfReplayingOther(t)
	if ev.Shard() == 0 {
		probe.F9("C09")
		probe.F10("C09")
		probe.F11("C09")
	}
}

// ---------------------------------------------------------------------------
// One matrix dimension can be written three ways (a bare list, `setup: [..]`, `setup: {"": [..]}`),
// and marshalling picks the spelling: whatever a reader accepts in one spelling it must accept in the
// spelling the writer chooses, for value lists of every length.

var recSpell = ev.New("TestPropMatrixSpellings", "one command step whose matrix has value lists of 0-64 values (half of the lengths within 1 of 8, 10, 16, 20, 25, 32, 50, 64) in each spelling - bare list, `setup: [..]`, `setup: {\"\": [..]}`, named dimensions - with and without adjustments and an extra matrix key, values strings / integers / booleans: same oracle as TestPropFixpoint; non-trivial = more than 8 values; distinct by text")

func TestPropMatrixSpellings(t *testing.T) {
	curRec = recSpell
	defer func() { curRec = rec }()
	ev.Check(t, 600, 4000, func(t *rapid.T) {
		n := rapid.IntRange(0, 64).Draw(t, "n")
		if rapid.Bool().Draw(t, "round") {
			n = rapid.SampledFrom([]int{8, 10, 16, 20, 25, 32, 50, 64}).Draw(t, "base") + rapid.IntRange(-1, 1).Draw(t, "off")
		}
		var vals []string
		for i := 0; i < n; i++ {
			switch rapid.IntRange(0, 5).Draw(t, "vk") {
			case 0:
				vals = append(vals, fmt.Sprint(i))
			case 1:
				vals = append(vals, "true")
			default:
				vals = append(vals, fmt.Sprintf("\"v%d\"", i))
			}
		}
		list := "[" + strings.Join(vals, ", ") + "]"
		spelling := rapid.IntRange(0, 3).Draw(t, "spelling")
		adj := rapid.IntRange(0, 2).Draw(t, "adjustments") == 0
		extra := rapid.IntRange(0, 3).Draw(t, "extra") == 0
		var m string
		switch spelling {
		case 0:
			m = list
			adj, extra = false, false
		case 1:
			m = "{setup: " + list
		case 2:
			m = "{setup: {\"\": " + list + "}"
		default:
			m = "{setup: {os: " + list + ", arch: [amd64]}"
		}
		if spelling > 0 {
			if adj {
				if spelling == 3 {
					m += ", adjustments: [{with: {os: extra, arch: arm64}, skip: true}]"
				} else {
					m += ", adjustments: [{with: extra, soft_fail: true}]"
				}
			}
			if extra {
				m += ", concurrency: 3"
			}
			m += "}"
		}
		text := []byte("steps:\n  - command: \"echo {{matrix}}\"\n    matrix: " + m + "\n")
		g := doc.NewG(t, doc.Config{})
		if _, ok := checkFixpoint(t, "YAML", text, g); !ok {
			return
		}
		recSpell.Case(ev.HashBytes(text), n > 8, fmt.Sprintf("spelling=%d", spelling), fmt.Sprintf("adjustments=%v", adj), fmt.Sprintf("values>=%d", n/10*10))
		recSpell.MaybeSample(n > 8, func() any { return string(text[:min(len(text), 400)]) })
	})
}
