package probe
import ("testing";"pgregory.net/rapid"; "github.com/buildkite/go-pipeline/ordered"; _ "github.com/buildkite/go-pipeline/signature"; _ "github.com/buildkite/interpolate"; _ "gopkg.in/yaml.v3";_ "github.com/google/go-cmp/cmp")
func TestX(t *testing.T){ rapid.Check(t, func(t *rapid.T){ m:=ordered.NewMap[string,any](0); m.Set(rapid.String().Draw(t,"k"),1); if m.Len()!=1 {t.Fatal("x")}})}
