// C02 - signed steps still verify after JSON/YAML serialisation and re-parse.
package c02

import (
	"bytes"
	"context"
	"encoding/json"
	"fmt"
	"testing"

	pipeline "github.com/buildkite/go-pipeline"
	"github.com/buildkite/go-pipeline/signature"
	"github.com/buildkite/go-pipeline/warning"
	"gopkg.in/yaml.v3"
	"pgregory.net/rapid"

	"verif/harness/internal/canon"
	"verif/harness/internal/doc"
	"verif/harness/internal/envx"
	"verif/harness/internal/ev"
	"verif/harness/internal/gt"
	"verif/harness/internal/keys"
	"verif/harness/internal/probe"
	"verif/harness/internal/strs"
)

func TestMain(m *testing.M) { ev.Main(m) }

var rec = ev.New("TestPropSignedRoundTrip", "grammar-generated well-formed documents (all step kinds, groups, every shorthand, nil vs empty env/plugins/matrix incl. `matrix: {}`, short vs canonical plugin sources, every scalar kind in env / matrix / plugin configs within the I-JSON range, strings from S, anchors/merges, maps of > 8 entries), optionally interpolated with a generated env, signed with SignSteps (EdDSA, ES512, PS512, ES256 signer), marshalled to JSON and to YAML, re-read through Parse and step by step through CommandStep.UnmarshalJSON; every command step at every depth must verify with the public half under a verification env = pipeline env + unrelated variables; three repetitions per document; non-trivial = document has a list-form command, a non-canonical plugin source, a plugin config with a non-string scalar or nested map, an empty-but-present container, a matrix with adjustments, or a step env shadowing a pipeline variable; distinct by hash of the YAML text")

func walk(ss pipeline.Steps, depth int, f func(*pipeline.CommandStep, int)) {
	for _, s := range ss {
		switch t := s.(type) {
		case *pipeline.CommandStep:
			f(t, depth)
		case *pipeline.GroupStep:
			walk(t.Steps, depth+1, f)
		}
	}
}

func envMap(p *pipeline.Pipeline) map[string]string {
	m := map[string]string{}
	if p.Env != nil {
		p.Env.Range(func(k, v string) error { m[k] = v; return nil })
	}
	return m
}

func TestPropSignedRoundTrip(t *testing.T) {
	ctx := context.Background()
	pool := keys.Pool()
	ev.Check(t, 400, 5000, func(t *rapid.T) {
		cfg := doc.Config{
			Anchors: rapid.IntRange(0, 2).Draw(t, "anchors") == 0, Timestamps: true, Floats: true,
			BigMaps: true, BigMapOneIn: 4, EmptyKey: true, MergeKeyStr: true, EmptyMatrix: true, BothCommands: true, OddSources: true,
			// documents may already carry signature blocks (left by an earlier run, stale by now): signing
			// replaces them
			Signature: true,
		}
		g := doc.NewG(t, cfg)
		root := g.Pipeline()
		d, err := doc.Render(root, 2, 20000)
		if err != nil {
			rec.Excluded("render-fault-or-outside")
			return
		}
		if ex := doc.NF(d.Meaning, g.CanonSource); ex.Excluded != "" {
			rec.Excluded("excluded: " + ex.Excluded)
			return
		}
		kp := pool[rapid.IntRange(0, 1).Draw(t, "fast")]
		if rapid.IntRange(0, 5).Draw(t, "anykey") == 0 {
			kp = rapid.SampledFrom(pool).Draw(t, "key")
		}
		repo := rapid.SampledFrom([]string{"git@github.com:o/r.git", "", "https://example.org/r"}).Draw(t, "repo")
		interpolate := rapid.Bool().Draw(t, "interpolate")
		prefer := rapid.Bool().Draw(t, "prefer")
		rtEnv := map[string]string{"X": "xv", "FOO": "foo value", "FOO_BAR": "fb", "HOME": "/home/u"}
		nontrivial := false
		shadow := false
		for rep := 0; rep < 3; rep++ {
			p, perr := pipeline.Parse(bytes.NewReader(d.YAML))
			if perr != nil || p == nil {
				t.Fatalf("Parse of a well-formed document: %v\n%s", perr, d.YAML)
			}
			if interpolate {
				if err := p.Interpolate(envx.New(false, rtEnv), prefer); err != nil {
					// a string with a malformed / failing expansion: sign the un-interpolated pipeline instead
					p, _ = pipeline.Parse(bytes.NewReader(d.YAML))
					if rep == 0 {
						rec.Class("interpolation-error-skipped")
					}
				} else if rep == 0 {
					rec.Class("interpolated")
				}
			}
			penv := envMap(p)
			var opts []signature.Option
			if p.Env != nil {
				opts = append(opts, signature.WithEnv(penv))
			}
			if err := signature.SignSteps(ctx, p.Steps, kp.Priv, repo, opts...); err != nil {
				t.Fatalf("SignSteps failed on a pipeline without unknown steps: %v\n%s", err, d.YAML)
			}
			nsteps := 0
			walk(p.Steps, 0, func(cs *pipeline.CommandStep, depth int) {
				nsteps++
				if rep == 0 {
					for k := range cs.Env {
						if _, ok := penv[k]; ok {
							shadow = true
						}
					}
				}
			})
			// verification env: pipeline env plus unrelated variables (names outside pipeline and step env)
			venvOf := func(q *pipeline.Pipeline) map[string]string {
				v := envMap(q)
				v["BUILDKITE_UNRELATED\x00"] = "u"
				v["BUILDKITE_JOB_ID_"+fmt.Sprint(rep)] = "j"
				return v
			}
			verifyAll := func(how string, q *pipeline.Pipeline, text []byte) {
				n := 0
				// the verification env is built once per re-parsed pipeline and reused for every step,
				// the way a job run would hold it
				shared := venvOf(q)
				sharedCopy := fmt.Sprint(shared)
				defer func() {
					if fmt.Sprint(shared) != sharedCopy {
						t.Fatalf("[%s] Verify modified the caller's verification env: %s -> %v", how, sharedCopy, shared)
					}
				}()
				walk(q.Steps, 0, func(cs *pipeline.CommandStep, depth int) {
					n++
					if cs.Signature == nil {
						t.Fatalf("[%s] command step %q lost its signature\n%s", how, cs.Command, text)
					}
					sf := &signature.CommandStepWithInvariants{CommandStep: *cs, RepositoryURL: repo}
					if err := signature.Verify(ctx, cs.Signature, kp.Pub, sf, signature.WithEnv(shared)); err != nil {
						t.Fatalf("[%s, key %s, rep %d] signature no longer verifies: %v\nstep: %s\n---- marshalled ----\n%s\n---- document ----\n%s", how, kp.Kind, rep, err, gt.Show(canon.Step(cs, canon.Raw)), text, d.YAML)
					}
				})
				if n != nsteps {
					t.Fatalf("[%s] %d command steps after the round trip, %d before\n%s", how, n, nsteps, text)
				}
			}
			jb, err := json.Marshal(p)
			if err != nil {
				t.Fatalf("json.Marshal: %v", err)
			}
			pj, err := pipeline.Parse(bytes.NewReader(jb))
			if err != nil && !warning.Is(err) || pj == nil {
				t.Fatalf("re-parsing the JSON of a signed pipeline fails: %v\n%s", err, jb)
			}
			verifyAll("Parse(json)", pj, jb)
			unsafe := func(s string) bool { return !strs.YAMLLegOK(s) }
			ref := canon.Pipeline(p, canon.Raw)
			yamlOK := !doc.HasString(ref, unsafe) && !(ev.Known("F9") && doc.HasKey(ref, func(k string) bool { return k == "<<" }))
			if yamlOK {
				yb, err := yaml.Marshal(p)
				if err != nil {
					t.Fatalf("yaml.Marshal: %v", err)
				}
				py, err := pipeline.Parse(bytes.NewReader(yb))
				if err != nil && !warning.Is(err) || py == nil {
					t.Fatalf("re-parsing the YAML of a signed pipeline fails: %v\n%s", err, yb)
				}
				verifyAll("Parse(yaml)", py, yb)
			} else if rep == 0 {
				rec.Excluded("yaml-leg: carve-out string or key << (F9)")
			}
			// the way an agent receives a job: one step's JSON through CommandStep.UnmarshalJSON
			walk(p.Steps, 0, func(cs *pipeline.CommandStep, depth int) {
				sb, err := json.Marshal(cs)
				if err != nil {
					t.Fatalf("json.Marshal(step): %v", err)
				}
				var back pipeline.CommandStep
				if err := json.Unmarshal(sb, &back); err != nil {
					t.Fatalf("CommandStep.UnmarshalJSON fails on a signed step's own JSON: %v\n%s", err, sb)
				}
				if back.Signature == nil {
					t.Fatalf("CommandStep.UnmarshalJSON lost the signature\n%s", sb)
				}
				sf := &signature.CommandStepWithInvariants{CommandStep: back, RepositoryURL: repo}
				if err := signature.Verify(ctx, back.Signature, kp.Pub, sf, signature.WithEnv(venvOf(p))); err != nil {
					t.Fatalf("[CommandStep.UnmarshalJSON, key %s, rep %d] signature no longer verifies: %v\n---- step json ----\n%s\n---- document ----\n%s", kp.Kind, rep, err, sb, d.YAML)
				}
			})
			if rep == 0 {
				f := g.Feat
				if f["command-list"]+f["cfg-empty-map"]+f["cfg-empty-seq"]+f["env-empty"]+f["plugins-empty"]+f["matrix-empty"]+f["matrix-adjustments"]+f["cfg-scalar"] > 0 || shadow {
					nontrivial = true
				}
				for src, c := range g.Canon {
					if src != c {
						nontrivial = true
					}
				}
				if nsteps == 0 {
					nontrivial = false
				}
			}
		}
		cls := []string{"key=" + kp.Kind}
		if shadow {
			cls = append(cls, "step-env-shadows-pipeline-var")
		}
		if g.Feat["matrix-empty"] > 0 {
			cls = append(cls, "empty-matrix")
		}
		rec.Case(ev.HashBytes(d.YAML), nontrivial, cls...)
		rec.MaybeSample(nontrivial, func() any { return string(d.YAML[:min(len(d.YAML), 1200)]) })
	})
}

func TestKnownFindings(t *testing.T) {
	ev.SkipIfReplayingOther(t)
	_ = probe.F9Reproduces // C02 only leaves the F9 class off its YAML leg; the finding is reported by C03/C08/C09
}

// ---------------------------------------------------------------------------
// Deep documents (doc.GenDeep). Marshalling writes some spellings one or two levels deeper than they
// were read (a bare step list gains `steps`, plugins written as one mapping become a list of
// one-entry mappings, a bare-string plugin gains its null config, `cache: path` becomes
// {paths: [path]}): whatever parses and signs must still re-parse and verify.

var recDeep = ev.New("TestPropDeepDocumentsRoundTrip", "well-formed documents nested 1-320 levels deep (nested groups and / or data inside plugin configs and unknown fields; half of the depths within 6 of a round number) ending in every shorthand that is written back deeper than it was read: parse -> SignSteps -> marshal (JSON, YAML) -> Parse and, per step, CommandStep.UnmarshalJSON -> Verify; a document the first parse refuses is excluded (counted); non-trivial = deeper than 40 levels with a command step; distinct by text")

func TestPropDeepDocumentsRoundTrip(t *testing.T) {
	ctx := context.Background()
	pool := keys.Pool()
	ev.Check(t, 1600, 6000, func(t *rapid.T) {
		dd := doc.GenDeep(t)
		kp := pool[rapid.IntRange(0, 1).Draw(t, "fast")]
		p, err := pipeline.Parse(bytes.NewReader(dd.Text))
		if err != nil || p == nil {
			recDeep.Excluded("first parse refuses the document (C03 decides that)")
			return
		}
		penv := map[string]string{"DEPLOY": "1"}
		if err := signature.SignSteps(ctx, p.Steps, kp.Priv, "repo", signature.WithEnv(penv)); err != nil {
			t.Fatalf("SignSteps: %v\n%s", err, dd.Text[:min(len(dd.Text), 400)])
		}
		nsteps := 0
		walk(p.Steps, 0, func(*pipeline.CommandStep, int) { nsteps++ })
		verifyAll := func(how string, q *pipeline.Pipeline) {
			n := 0
			walk(q.Steps, 0, func(cs *pipeline.CommandStep, _ int) {
				n++
				if cs.Signature == nil {
					t.Fatalf("[%s] the command step lost its signature (depth %d)", how, dd.Depth)
				}
				sf := &signature.CommandStepWithInvariants{CommandStep: *cs, RepositoryURL: "repo"}
				if err := signature.Verify(ctx, cs.Signature, kp.Pub, sf, signature.WithEnv(penv)); err != nil {
					t.Fatalf("[%s] signature no longer verifies (depth %d, tail %d): %v", how, dd.Depth, dd.Tail, err)
				}
			})
			if n != nsteps {
				t.Fatalf("[%s] %d command steps after the round trip, %d before (depth %d)", how, n, nsteps, dd.Depth)
			}
		}
		jb, err := json.Marshal(p)
		if err != nil {
			t.Fatalf("json.Marshal: %v", err)
		}
		pj, err := pipeline.Parse(bytes.NewReader(jb))
		if err != nil || pj == nil {
			t.Fatalf("re-parsing the JSON of a signed pipeline fails (document depth %d, tail %d, groups %d, data levels %d): %v", dd.Depth, dd.Tail, dd.Groups, dd.DataLevels, err)
		}
		verifyAll("Parse(json)", pj)
		yb, err := yaml.Marshal(p)
		if err != nil {
			t.Fatalf("yaml.Marshal: %v", err)
		}
		py, err := pipeline.Parse(bytes.NewReader(yb))
		if err != nil || py == nil {
			t.Fatalf("re-parsing the YAML of a signed pipeline fails (document depth %d, tail %d, groups %d, data levels %d): %v", dd.Depth, dd.Tail, dd.Groups, dd.DataLevels, err)
		}
		verifyAll("Parse(yaml)", py)
		walk(p.Steps, 0, func(cs *pipeline.CommandStep, _ int) {
			sb, err := json.Marshal(cs)
			if err != nil {
				t.Fatalf("json.Marshal(step): %v", err)
			}
			var back pipeline.CommandStep
			if err := json.Unmarshal(sb, &back); err != nil {
				t.Fatalf("CommandStep.UnmarshalJSON fails on a signed step's own JSON (depth %d): %v", dd.Depth, err)
			}
			sf := &signature.CommandStepWithInvariants{CommandStep: back, RepositoryURL: "repo"}
			if back.Signature == nil || signature.Verify(ctx, back.Signature, kp.Pub, sf, signature.WithEnv(penv)) != nil {
				t.Fatalf("[CommandStep.UnmarshalJSON] signature lost or no longer verifies (depth %d, tail %d)", dd.Depth, dd.Tail)
			}
		})
		nt := dd.Depth > 40 && nsteps > 0
		recDeep.Case(ev.HashBytes(dd.Text), nt, dd.Classes()...)
		recDeep.MaybeSample(nt, func() any {
			return map[string]any{"depth": dd.Depth, "groups": dd.Groups, "data_levels": dd.DataLevels, "tail": dd.Tail}
		})
	})
}
