// C07 - YAML anchors, aliases and merges resolve per the merge rules; cycles error out.
package c07

import (
	"bytes"
	"errors"
	"fmt"
	"reflect"
	"strings"
	"testing"
	"time"

	pipeline "github.com/buildkite/go-pipeline"
	"github.com/buildkite/go-pipeline/ordered"
	"gopkg.in/yaml.v3"
	"pgregory.net/rapid"

	"verif/harness/internal/canon"
	"verif/harness/internal/doc"
	"verif/harness/internal/ev"
	"verif/harness/internal/gt"
)

func TestMain(m *testing.M) { ev.Main(m) }

const budget = 20000

// ---------------------------------------------------------------------------
// graph-mode generator: yaml.Node trees with anchors, aliases (values, sequence
// items, keys), merges (single alias, sequences, nested sequences, inline
// mappings, repeated << keys, merges through merges) and back-edges.

type gg struct {
	t         *rapid.T
	latest    map[string]*yaml.Node // anchor name -> latest definition so far (document order)
	names     []string
	open      map[*yaml.Node]bool // anchored nodes still being generated (ancestors)
	mergeSeqs map[*yaml.Node]bool // anchored sequences used as merge values (sequences of merge sources)
	backEdges bool
	nodes     int
	stats     struct{ backValue, backMerge, aliasKey, inlineMerge, repeatedMerge, nestedSeqMerge, redefined, rawKey, seqMergeCycle int }
}

var anchorNames = []string{"a0", "a1", "a2", "a3", "a4", "a5", "a6", "a7"}
var keyAlphabet = []string{"a", "b", "c", "d", "e", "k"}
var scalarTexts = []string{"1", "2", "x", "y", "true", "null", "~", "yes", "0x10", "s t", "", "3.5", "a", "b"}

func (g *gg) intn(l string, lo, hi int) int { return rapid.IntRange(lo, hi).Draw(g.t, l) }

func (g *gg) anchor(n *yaml.Node) {
	name := rapid.SampledFrom(anchorNames).Draw(g.t, "aname")
	if _, re := g.latest[name]; re {
		g.stats.redefined++
	} else {
		g.names = append(g.names, name)
	}
	n.Anchor = name
	g.latest[name] = n
}

// pickAnchor returns the latest definition of a random anchor name satisfying ok.
func (g *gg) pickAnchor(label string, ok func(*yaml.Node) bool) *yaml.Node {
	var cand []string
	for _, nme := range g.names {
		if t := g.latest[nme]; ok(t) {
			cand = append(cand, nme)
		}
	}
	if len(cand) == 0 {
		return nil
	}
	return g.latest[rapid.SampledFrom(cand).Draw(g.t, label)]
}

func (g *gg) scalar() *yaml.Node {
	txt := rapid.SampledFrom(scalarTexts).Draw(g.t, "stext")
	if g.intn("quoted", 0, 3) == 0 {
		return doc.StrNode(txt)
	}
	if txt == "" {
		return doc.StrNode(txt)
	}
	return doc.Plain(txt)
}

func (g *gg) node(depth int) *yaml.Node {
	g.nodes++
	k := g.intn("kind", 0, 9)
	if g.nodes > 60 {
		k = 0
	}
	// alias as a value / sequence item
	if k <= 2 {
		if t := g.pickAnchor("alias", func(n *yaml.Node) bool { return g.backEdges || !g.open[n] }); t != nil {
			if g.open[t] {
				g.stats.backValue++
			}
			return doc.AliasNode(t)
		}
	}
	switch {
	case depth >= 4 || k < 5:
		n := g.scalar()
		if g.intn("anchorscalar", 0, 2) == 0 {
			g.anchor(n)
		}
		return n
	case k < 7:
		n := doc.SeqNode(g.intn("flow", 0, 3) == 0)
		if g.intn("anchor", 0, 1) == 0 {
			g.anchor(n)
			g.open[n] = true
		}
		cnt := g.intn("nitems", 0, 3)
		if g.intn("bigseq", 0, 11) == 0 {
			// a long sequence of scalars (anchored collections of every size must be copied per alias)
			for i, c := 0, g.intn("nbig", 16, 24); i < c; i++ {
				n.Content = append(n.Content, g.scalar())
			}
			cnt = 0
		}
		for i := 0; i < cnt; i++ {
			n.Content = append(n.Content, g.node(depth+1))
		}
		delete(g.open, n)
		return n
	default:
		return g.mapping(depth, g.intn("anchor", 0, 2) > 0)
	}
}

func (g *gg) mergeValue(depth int) *yaml.Node {
	isMap := func(n *yaml.Node) bool { return n.Kind == yaml.MappingNode && (g.backEdges || !g.open[n]) }
	alias := func() *yaml.Node {
		// now and then a source is itself an anchored merge-value sequence (possibly the one being written)
		if g.intn("seqsrc", 0, 5) == 0 {
			if t := g.pickAnchor("mseq", func(n *yaml.Node) bool {
				return g.mergeSeqs[n] && g.latest[n.Anchor] == n && (g.backEdges || !g.open[n])
			}); t != nil {
				if g.open[t] {
					g.stats.seqMergeCycle++
				}
				return doc.AliasNode(t)
			}
		}
		t := g.pickAnchor("msrc", isMap)
		if t == nil {
			return nil
		}
		if g.open[t] {
			g.stats.backMerge++
		}
		return doc.AliasNode(t)
	}
	// anchorSeq anchors a merge-value sequence before its items are written, so an item can refer back to it
	anchorSeq := func(s *yaml.Node) {
		if g.intn("anchorseq", 0, 2) == 0 {
			g.anchor(s)
			g.open[s] = true
			g.mergeSeqs[s] = true
		}
	}
	switch g.intn("mform", 0, 6) {
	case 0, 1, 2:
		if a := alias(); a != nil {
			return a
		}
	case 3, 4:
		s := doc.SeqNode(true)
		anchorSeq(s)
		for i, c := 0, g.intn("nsrc", 1, 3); i < c; i++ {
			if a := alias(); a != nil {
				s.Content = append(s.Content, a)
			}
		}
		delete(g.open, s)
		if len(s.Content) > 0 {
			return s
		}
		if s.Anchor != "" {
			// an empty anchored sequence is still a legal merge value (no sources)
			return s
		}
	case 5:
		// nested sequences
		inner := doc.SeqNode(true)
		for i, c := 0, g.intn("nsrc", 1, 2); i < c; i++ {
			if a := alias(); a != nil {
				inner.Content = append(inner.Content, a)
			}
		}
		outer := doc.SeqNode(true, inner)
		if a := alias(); a != nil {
			outer.Content = append(outer.Content, a)
		}
		if len(inner.Content) > 0 {
			g.stats.nestedSeqMerge++
			return outer
		}
	}
	// inline mapping as the merge source
	g.stats.inlineMerge++
	return g.mapping(depth+1, false)
}

func (g *gg) mapping(depth int, anchored bool) *yaml.Node {
	g.nodes++
	n := doc.MapNode(g.intn("flow", 0, 3) == 0)
	if anchored {
		g.anchor(n)
		g.open[n] = true
	}
	used := map[string]bool{}
	merges := 0
	nent := g.intn("nentries", 0, 5)
	if g.intn("bigmap", 0, 11) == 0 {
		// a mapping of 8-14 scalar entries first
		for i, c := 0, g.intn("nbigmap", 8, 14); i < c; i++ {
			k := fmt.Sprintf("w%d", i)
			used[k] = true
			n.Content = append(n.Content, doc.StrNode(k), g.scalar())
		}
	}
	for i := 0; i < nent; i++ {
		if g.intn("merge?", 0, 3) == 0 && depth < 4 {
			n.Content = append(n.Content, doc.MergeKey(), g.mergeValue(depth))
			merges++
			continue
		}
		// key: from the small alphabet, a raw int / bool look-alike, or an alias to a scalar anchor
		var kn *yaml.Node
		var ck string
		switch g.intn("keykind", 0, 7) {
		case 0:
			if t := g.pickAnchor("keyalias", func(x *yaml.Node) bool { return x.Kind == yaml.ScalarNode }); t != nil {
				if c, err := doc.CanonKey(t); err == nil {
					kn, ck = doc.AliasNode(t), c
					g.stats.aliasKey++
					if t.Tag != "!!str" {
						g.stats.rawKey++ // an alias to a non-string scalar used as a key: same exclusion as an unquoted int / bool key
					}
				}
			}
		case 1:
			r := rapid.SampledFrom([]struct{ text, canon string }{{"1", "1"}, {"0x1", "1"}, {"true", "true"}, {"2", "2"}, {"0b1", "1"}, {"+2", "2"}, {"True", "true"},
				// integers at and beyond the int64 boundary in several spellings (they decode to uint64)
				{"9223372036854775807", "9223372036854775807"}, {"0x7FFFFFFFFFFFFFFF", "9223372036854775807"},
				{"9223372036854775808", "9223372036854775808"}, {"0x8000000000000000", "9223372036854775808"},
				{"18446744073709551615", "18446744073709551615"}, {"0xFFFFFFFFFFFFFFFF", "18446744073709551615"}, {"18_446_744_073_709_551_615", "18446744073709551615"},
				{"-9223372036854775808", "-9223372036854775808"}, {"-0x8000000000000000", "-9223372036854775808"}}).Draw(g.t, "rawkey")
			kn, ck = doc.Plain(r.text), r.canon
			g.stats.rawKey++
		}
		if kn == nil {
			ck = rapid.SampledFrom(keyAlphabet).Draw(g.t, "key")
			kn = doc.StrNode(ck)
		}
		if used[ck] {
			continue
		}
		used[ck] = true
		n.Content = append(n.Content, kn, g.node(depth+1))
	}
	if merges > 1 {
		g.stats.repeatedMerge++
	}
	delete(g.open, n)
	return n
}

// ---------------------------------------------------------------------------
// oracles

// identities walks a decoded value and reports a shared *ordered.Map or a
// shared non-empty slice backing array.
func identities(v any, seenMaps map[*ordered.MapSA]string, seenSlices map[uintptr]string, path string) string {
	switch t := v.(type) {
	case *ordered.MapSA:
		if t == nil {
			return ""
		}
		if p, dup := seenMaps[t]; dup {
			return fmt.Sprintf("the same *ordered.Map is reachable at %s and %s", p, path)
		}
		seenMaps[t] = path
		var out string
		t.Range(func(k string, x any) error {
			if out == "" {
				out = identities(x, seenMaps, seenSlices, path+"."+k)
			}
			return nil
		})
		return out
	case []any:
		if len(t) > 0 {
			ptr := reflect.ValueOf(t).Pointer()
			if p, dup := seenSlices[ptr]; dup {
				return fmt.Sprintf("the same slice is reachable at %s and %s", p, path)
			}
			seenSlices[ptr] = path
		}
		for i, x := range t {
			if s := identities(x, seenMaps, seenSlices, fmt.Sprintf("%s[%d]", path, i)); s != "" {
				return s
			}
		}
	}
	return ""
}

// poison mutates the first collection found below v (to check independence of copies).
func poison(v any) bool {
	switch t := v.(type) {
	case *ordered.MapSA:
		if t != nil {
			t.Set("☠poison", true)
			return true
		}
	case []any:
		if len(t) > 0 {
			t[0] = "☠poison"
			return true
		}
	}
	return false
}

func safeDecode(n *yaml.Node) (v any, err error, dur time.Duration) {
	start := time.Now()
	defer func() {
		dur = time.Since(start)
		if r := recover(); r != nil {
			err = fmt.Errorf("PANIC: %v", r)
			v = nil
		}
	}()
	v, err = ordered.DecodeYAML(n)
	return
}

var rec = ev.New("TestPropAnchorGraphs", "anchor/alias/merge graphs generated as yaml.Node trees: 8 anchor names (re-defined later on purpose), aliases as values, sequence items and mapping keys, merges with a single alias, sequences and nested sequences of aliases, inline mappings, repeated << keys, merges through merges, forced key overlaps (6-key alphabet, int/bool look-alike keys), and back-edges (alias to an enclosing anchored node) through values, sequences and merges; expansion bounded to 20000 nodes; oracle 1 = reference resolver written from the merge-key specification (content and order; value cycle => error, merge cycle => tolerated), oracle 2 = yaml.v3's own Decode when it accepts the document, oracle 3 = independence of copies, oracle 4 = no panic, returns promptly; also through pipeline.Parse with the graph under an unknown top-level key; non-trivial = >= 2 merge sources with overlapping keys, or a merge reached through a merge, or a cycle; distinct by hash of the YAML text")

func TestPropAnchorGraphs(t *testing.T) {
	ev.Check(t, 30000, 400000, func(t *rapid.T) {
		g := &gg{t: t, latest: map[string]*yaml.Node{}, open: map[*yaml.Node]bool{}, mergeSeqs: map[*yaml.Node]bool{}}
		g.backEdges = rapid.IntRange(0, 3).Draw(t, "backedges") == 0
		root := doc.MapNode(false)
		for i, c := 0, rapid.IntRange(2, 7).Draw(t, "nfrag"); i < c; i++ {
			root.Content = append(root.Content, doc.StrNode(fmt.Sprintf("f%d", i)), g.node(0))
		}
		if sz, _ := doc.ExpandedSize(root, budget); sz > budget {
			rec.Excluded("expansion larger than the bound")
			return
		}
		d, rerr := doc.Render(root, 2, budget)
		if rerr != nil && !errors.Is(rerr, doc.ErrValueCycle) {
			if errors.Is(rerr, doc.ErrRenderFault) {
				rec.Excluded("render-fault")
			} else {
				rec.Excluded("outside-model")
			}
			return
		}
		valueCycle := errors.Is(rerr, doc.ErrValueCycle)
		got, derr, dur := safeDecode(d.Parsed)
		if derr != nil && len(derr.Error()) > 5 && derr.Error()[:5] == "PANIC" {
			t.Fatalf("%v\n%s", derr, d.YAML)
		}
		if dur > 10*time.Second {
			t.Fatalf("DecodeYAML took %v on a document of bounded expansion\n%s", dur, d.YAML)
		}
		cls := []string{}
		switch {
		case valueCycle:
			cls = append(cls, "value-cycle")
			if derr == nil {
				t.Fatalf("document has a value cycle but DecodeYAML succeeded\n%s", d.YAML)
			}
		default:
			if derr != nil {
				t.Fatalf("DecodeYAML failed on an acyclic (or merge-cycle-only) document: %v\n%s", derr, d.YAML)
			}
			gn := canon.Value(got)
			meaning := d.Meaning
			if diff := gt.Diff(d.Meaning, gn, gt.Opt{}); diff != "" {
				if !d.Res.MergeCycle {
					t.Fatalf("DecodeYAML differs from the merge-key specification: %s\nexpected %s\ngot      %s\n%s", diff, gt.Show(d.Meaning), gt.Show(gn), d.YAML)
				}
				// a merge cycle: the merge-key specification does not say what a cyclic merge yields and the
				// statement only asks that it be tolerated. The reference cuts a cycle where a mapping is
				// met again on the current path; the library also remembers merge-value sequences it is
				// inside of - in rare graphs the two cuts give different orders or keys. Not a violation;
				// counted, and the decoded value itself is the reference for the checks further down.
				rec.Excluded("merge cycle: the decoded content differs from the reference's way of cutting the cycle (unspecified)")
				meaning = gn
			}
			if d.Res.MergeCycle {
				cls = append(cls, "merge-cycle")
			}
			// oracle 2: yaml.v3's own decoder, when it accepts the document. Documents with
			// unquoted int / bool keys are left out: yaml.v3 keeps their source text as the
			// key, whereas canonicalising them (0x1 == 1) is this library's documented behaviour.
			var plain any
			if g.stats.rawKey > 0 {
				cls = append(cls, "non-string-key")
			} else if err := d.Parsed.Decode(&plain); err == nil {
				pn, err := gt.FromGo(plain)
				if err == nil {
					if diff := gt.Diff(gt.Unorder(pn), gt.Unorder(gn), gt.Opt{IgnoreOrder: true}); diff != "" {
						t.Fatalf("DecodeYAML differs from yaml.v3's own decoder: %s\nyaml.v3 %s\nordered %s\n%s", diff, gt.Show(pn), gt.Show(gn), d.YAML)
					}
					cls = append(cls, "yaml.v3-agrees")
				}
			}
			// oracle 3: independent copies
			if s := identities(got, map[*ordered.MapSA]string{}, map[uintptr]string{}, "$"); s != "" {
				t.Fatalf("aliases do not expand to independent copies: %s\n%s", s, d.YAML)
			}
			if m, ok := got.(*ordered.MapSA); ok {
				// poison the first collection under each top-level key in turn; nothing else may change
				before := canon.Value(got)
				var keys []string
				m.Range(func(k string, _ any) error { keys = append(keys, k); return nil })
				for _, k := range keys {
					v, _ := m.Get(k)
					if !poison(v) {
						continue
					}
					after := canon.Value(got)
					for i, kk := range before.Keys {
						if kk == k {
							continue
						}
						av, _ := after.Get(kk)
						if gt.Diff(before.Vals[i], av, gt.Opt{}) != "" {
							t.Fatalf("mutating the value under %q changed the value under %q: copies share structure\n%s", k, kk, d.YAML)
						}
					}
					break
				}
			}
			// through pipeline.Parse: the graph under an unknown top-level key
			wrapped := append([]byte("steps: [wait]\ngraph:\n"), indent(d.YAML)...)
			if p, perr := pipeline.Parse(bytes.NewReader(wrapped)); perr != nil {
				t.Fatalf("pipeline.Parse failed on the same graph under a top-level key: %v\n%s", perr, wrapped)
			} else {
				pg := canon.Value(p.RemainingFields["graph"])
				if diff := gt.Diff(meaning, pg, gt.Opt{}); diff != "" {
					t.Fatalf("pipeline.Parse resolves the graph differently: %s\n%s", diff, wrapped)
				}
			}
		}
		r := d.Res
		nt := valueCycle || r.MergeCycle || r.NestedMerges > 0 || (r.MergeSources >= 2 && r.OverlapHidden > 0)
		if r.Merges > 0 {
			cls = append(cls, "has-merge")
		}
		if r.NestedMerges > 0 {
			cls = append(cls, "merge-through-merge")
		}
		if r.OverlapHidden > 0 {
			cls = append(cls, "overlap")
		}
		if g.stats.aliasKey > 0 {
			cls = append(cls, "alias-key")
		}
		if g.stats.repeatedMerge > 0 {
			cls = append(cls, "repeated-merge-key")
		}
		if g.stats.inlineMerge > 0 {
			cls = append(cls, "inline-merge-source")
		}
		if g.stats.redefined > 0 {
			cls = append(cls, "anchor-redefined")
		}
		if g.stats.seqMergeCycle > 0 {
			cls = append(cls, "merge-cycle-through-sequence")
		}
		rec.Case(ev.HashBytes(d.YAML), nt, cls...)
		rec.MaybeSample(nt, func() any { return string(d.YAML[:min(len(d.YAML), 1200)]) })
	})
}

func indent(b []byte) []byte {
	var out bytes.Buffer
	for _, line := range bytes.SplitAfter(b, []byte("\n")) {
		if len(line) == 0 {
			continue
		}
		out.WriteString("  ")
		out.Write(line)
	}
	return out.Bytes()
}

// Hand-written corpus: the shapes named in the statement, pinned (bypasses the library).
func TestCorpusShapes(t *testing.T) {
	ev.SkipIfReplayingOther(t)
	for _, tc := range []struct {
		name, in string
		want     string // JSON of expected content; "" = must error
	}{
		{"explicit-beats-merged", "base: &b {a: 1, b: 2}\nm: {<<: *b, a: 9}\n", `{"base":{"a":1,"b":2},"m":{"b":2,"a":9}}`},
		{"explicit-after-merge-still-wins", "base: &b {a: 1, b: 2}\nm:\n  a: 9\n  <<: *b\n", `{"base":{"a":1,"b":2},"m":{"a":9,"b":2}}`},
		{"earlier-source-wins", "x: &x {a: 1}\ny: &y {a: 2, b: 3}\nm: {<<: [*x, *y]}\n", `{"x":{"a":1},"y":{"a":2,"b":3},"m":{"a":1,"b":3}}`},
		{"merge-through-merge", "x: &x {a: 1}\ny: &y {<<: *x, b: 2}\nm: {<<: *y, c: 3}\n", `{"x":{"a":1},"y":{"a":1,"b":2},"m":{"a":1,"b":2,"c":3}}`},
		{"alias-key", "k: &k name\nm: {*k : v}\n", `{"k":"name","m":{"name":"v"}}`},
		{"self-value-cycle", "a: &a\n  b: *a\n", ""},
		{"seq-value-cycle", "a: &a [1, *a]\n", ""},
		{"merge-cycle-tolerated", "a: &a\n  x: 1\n  <<: *a\n", `{"a":{"x":1}}`},
		{"sibling-reuse-is-not-a-cycle", "a: &a {b: c}\nd: {da: *a, db: *a}\n", `{"a":{"b":"c"},"d":{"da":{"b":"c"},"db":{"b":"c"}}}`},
	} {
		var n yaml.Node
		if err := yaml.Unmarshal([]byte(tc.in), &n); err != nil {
			t.Fatalf("%s: yaml: %v", tc.name, err)
		}
		got, err, _ := safeDecode(&n)
		if tc.want == "" {
			if err == nil {
				t.Fatalf("%s: expected an error, got %v", tc.name, got)
			}
			continue
		}
		if err != nil {
			t.Fatalf("%s: %v", tc.name, err)
		}
		want, _ := gt.FromJSON([]byte(tc.want))
		if d := gt.Diff(want, canon.Value(got), gt.Opt{}); d != "" {
			t.Fatalf("%s: %s", tc.name, d)
		}
	}
}

// ---------------------------------------------------------------------------
// native coverage-guided fuzzing of the decoder (thorough tier): arbitrary YAML text, the
// same reference resolver as oracle wherever it defines the document's meaning.

func checkText(data []byte) error {
	if len(data) > 1<<16 {
		return nil
	}
	var node yaml.Node
	if err := yaml.Unmarshal(data, &node); err != nil || node.Kind == 0 {
		return nil
	}
	if sz, _ := doc.ExpandedSize(&node, budget); sz > budget {
		return nil
	}
	res, rerr := doc.Resolve(&node, budget)
	got, derr, dur := safeDecode(&node)
	if derr != nil && strings.HasPrefix(derr.Error(), "PANIC") {
		return derr
	}
	if dur > 10*time.Second {
		return fmt.Errorf("DecodeYAML took %v", dur)
	}
	switch {
	case errors.Is(rerr, doc.ErrValueCycle):
		if derr == nil {
			return fmt.Errorf("value cycle but DecodeYAML succeeded")
		}
	case rerr != nil:
		// outside the reference model (null / float / collection keys, scalar merge sources, ...): totality only
	default:
		if derr != nil {
			return fmt.Errorf("DecodeYAML failed where the merge-key specification defines a result: %v", derr)
		}
		if d := gt.Diff(res.Val, canon.Value(got), gt.Opt{}); d != "" && !res.MergeCycle {
			// (with a merge cycle the content is unspecified: see TestPropAnchorGraphs)
			return fmt.Errorf("DecodeYAML differs from the merge-key specification: %s", d)
		}
		if s := identities(got, map[*ordered.MapSA]string{}, map[uintptr]string{}, "$"); s != "" {
			return fmt.Errorf("copies share structure: %s", s)
		}
	}
	return nil
}

var fuzzSeeds = []string{
	"base: &b {a: 1, b: 2}\nm: {<<: *b, a: 9}\n",
	"x: &x {a: 1}\ny: &y {a: 2, b: 3}\nm: {<<: [*x, *y], c: 4}\n",
	"x: &x {a: 1}\ny: &y {<<: *x, b: 2}\nm: {c: 3, <<: *y}\n",
	"k: &k name\nm: {*k : v, <<: {name: w, other: 1}}\n",
	"a: &a\n  b: *a\n",
	"a: &a [1, *a]\n",
	"a: &a\n  x: 1\n  <<: *a\n",
	"s: &s [{a: 1}, *s]\nm: {<<: *s}\n",
	"b: &b {k: {<<: *b}}\n",
	"a: &a {b: c}\nd: {da: *a, db: *a, <<: [*a, [*a]]}\n",
	"0x10: a\n16: b\ntrue: c\n\"true\": d\n",
	"? &k key\n: &v value\n*k : *v\n",
	"m: {<<: {a: 1}, <<: {a: 2, b: 3}}\n",
	"- &a {x: 1}\n- <<: *a\n  y: 2\n- [*a, *a]\n",
}

func FuzzDecodeYAML(f *testing.F) {
	for _, s := range fuzzSeeds {
		f.Add([]byte(s))
	}
	f.Fuzz(func(t *testing.T, data []byte) {
		if err := checkText(data); err != nil {
			t.Fatalf("%v\n---- input ----\n%q", err, data)
		}
	})
}

// ---------------------------------------------------------------------------
// Layered merges: a chain of anchored mappings, each merging earlier layers several times over
// (sequence form, repeated `<<` entries, the same layer twice, "diamonds" through two intermediate
// layers). The merged content stays tiny - a handful of keys - however many paths lead to a layer,
// so decoding must stay cheap; the expected content is computed layer by layer (each layer once).

var recLayers = ev.New("TestPropLayeredMerges", "documents of 2-48 layered anchored mappings, each with 0-2 explicit keys from a 5-key alphabet and 1-3 merge sources drawn from the earlier layers (mostly the previous one or two; the same layer may occur twice; sequence form or repeated << entries): the number of merge PATHS grows exponentially with the depth while the merged content has at most 5 keys; oracle = content and order of every layer computed by dynamic programming from the merge rules (explicit beats merged, earlier source beats later, merged keys stand where the merge key stood); ordered.DecodeYAML and pipeline.Parse (layers under an unknown top-level key) must return within 20 s (a watchdog, not a measurement: the unchanged library needs milliseconds) and agree with the oracle; non-trivial = >= 20 layers with >= 2 sources each on the longest chain; distinct by hash of the text")

func TestPropLayeredMerges(t *testing.T) {
	keys := []string{"a", "b", "c", "d", "e"}
	ev.Check(t, 400, 8000, func(t *rapid.T) {
		L := rapid.IntRange(2, 12).Draw(t, "layers")
		if rapid.IntRange(0, 2).Draw(t, "deep") == 0 {
			L = rapid.IntRange(20, 48).Draw(t, "deeplayers")
		}
		type kv struct{ k, v string }
		resolved := make([][]kv, L)
		var b strings.Builder
		b.WriteString("x-layers:\n")
		chain := 0 // layers on the chain i-1 <- i that merge the previous layer at least twice (directly or via a diamond)
		for i := 0; i < L; i++ {
			type entry struct {
				key  string // "" = merge entry
				val  string
				srcs []int
			}
			var ents []entry
			used := map[string]bool{}
			for j, c := 0, rapid.IntRange(0, 2).Draw(t, "nexplicit"); j < c; j++ {
				k := rapid.SampledFrom(keys).Draw(t, "k")
				if used[k] {
					continue
				}
				used[k] = true
				ents = append(ents, entry{key: k, val: fmt.Sprintf("L%d%s", i, k)})
			}
			if i == 0 && len(ents) == 0 {
				ents = append(ents, entry{key: "a", val: "L0a"})
			}
			if i > 0 {
				ns := rapid.IntRange(1, 3).Draw(t, "nsrc")
				var srcs []int
				for j := 0; j < ns; j++ {
					lo := max(0, i-2)
					if rapid.IntRange(0, 5).Draw(t, "far") == 0 {
						lo = 0
					}
					srcs = append(srcs, rapid.IntRange(lo, i-1).Draw(t, "src"))
				}
				twice := 0
				for _, s := range srcs {
					if s == i-1 || s == i-2 {
						twice++
					}
				}
				if twice >= 2 {
					chain++
				}
				if len(srcs) > 1 && rapid.Bool().Draw(t, "repeated") {
					for _, s := range srcs {
						ents = append(ents, entry{srcs: []int{s}})
					}
				} else {
					ents = append(ents, entry{srcs: srcs})
				}
				ents = rapid.Permutation(ents).Draw(t, "order")
			}
			// text
			fmt.Fprintf(&b, "  l%d: &l%d\n", i, i)
			for _, e := range ents {
				if e.key != "" {
					fmt.Fprintf(&b, "    %s: %q\n", e.key, e.val)
					continue
				}
				if len(e.srcs) == 1 && rapid.Bool().Draw(t, "plainalias") {
					fmt.Fprintf(&b, "    <<: *l%d\n", e.srcs[0])
					continue
				}
				parts := make([]string, len(e.srcs))
				for j, s := range e.srcs {
					parts[j] = fmt.Sprintf("*l%d", s)
				}
				fmt.Fprintf(&b, "    <<: [%s]\n", strings.Join(parts, ", "))
			}
			// oracle for this layer (each earlier layer is already resolved: no path is walked twice)
			present := map[string]bool{}
			for _, e := range ents {
				if e.key != "" {
					present[e.key] = true
				}
			}
			var out []kv
			for _, e := range ents {
				if e.key != "" {
					out = append(out, kv{e.key, e.val})
					continue
				}
				for _, s := range e.srcs {
					for _, p := range resolved[s] {
						if !present[p.k] {
							present[p.k] = true
							out = append(out, p)
						}
					}
				}
			}
			resolved[i] = out
		}
		b.WriteString("steps:\n  - command: x\n")
		text := []byte(b.String())

		type res struct {
			p    *pipeline.Pipeline
			v    any
			err  error
			perr error
		}
		done := make(chan res, 1)
		go func() {
			var r res
			defer func() {
				if x := recover(); x != nil {
					r.err = fmt.Errorf("PANIC: %v", x)
				}
				done <- r
			}()
			var n yaml.Node
			if r.err = yaml.Unmarshal(text, &n); r.err != nil {
				return
			}
			r.v, r.err = ordered.DecodeYAML(&n)
			if r.err != nil {
				return
			}
			r.p, r.perr = pipeline.Parse(bytes.NewReader(text))
		}()
		var r res
		select {
		case r = <-done:
		case <-time.After(20 * time.Second):
			t.Fatalf("decoding / parsing did not return within 20 s on a %d-byte document of %d layered merges whose merged content has at most %d keys per layer\n%s", len(text), L, len(keys), text)
		}
		if r.err != nil {
			t.Fatalf("DecodeYAML: %v\n%s", r.err, text)
		}
		if r.perr != nil {
			t.Fatalf("Parse: %v\n%s", r.perr, text)
		}
		check := func(what string, layers any) {
			lm, ok := layers.(*ordered.MapSA)
			if !ok {
				t.Fatalf("%s: x-layers is %T", what, layers)
			}
			for i := 0; i < L; i++ {
				lv, _ := lm.Get(fmt.Sprintf("l%d", i))
				m, ok := lv.(*ordered.MapSA)
				if !ok {
					t.Fatalf("%s: layer %d is %T", what, i, lv)
				}
				var got []kv
				m.Range(func(k string, v any) error { got = append(got, kv{k, fmt.Sprint(v)}); return nil })
				if !reflect.DeepEqual(got, resolved[i]) && !(len(got) == 0 && len(resolved[i]) == 0) {
					t.Fatalf("%s: layer %d decodes to %v, the merge rules give %v\n%s", what, i, got, resolved[i], text)
				}
			}
		}
		top, _ := r.v.(*ordered.MapSA)
		if top == nil {
			t.Fatalf("DecodeYAML returned %T", r.v)
		}
		lv, _ := top.Get("x-layers")
		check("DecodeYAML", lv)
		check("Parse", r.p.RemainingFields["x-layers"])
		nt := L >= 20 && chain >= L/2
		recLayers.Case(ev.HashBytes(text), nt, fmt.Sprintf("layers>=20:%v", L >= 20))
		recLayers.MaybeSample(nt, func() any { return string(text[:min(len(text), 700)]) })
	})
}
