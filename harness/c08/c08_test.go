// C08 - order-significant mappings keep document order through decode and encode.
package c08

import (
	"bytes"
	"encoding/json"
	"errors"
	"fmt"
	"sort"
	"strings"
	"testing"

	pipeline "github.com/buildkite/go-pipeline"
	"github.com/buildkite/go-pipeline/ordered"
	"gopkg.in/yaml.v3"
	"pgregory.net/rapid"

	"verif/harness/internal/canon"
	"verif/harness/internal/doc"
	"verif/harness/internal/ev"
	"verif/harness/internal/gt"
	"verif/harness/internal/probe"
	"verif/harness/internal/strs"
)

func TestMain(m *testing.M) { ev.Main(m) }

// pos is one order-significant mapping of the input: where it must appear in
// the output (path of keys / indices) and the key sequence it must have.
type pos struct {
	path []any // string keys and int indices, relative to the marshalled pipeline
	keys []string
	what string
}

func (p pos) String() string { return fmt.Sprintf("%s at %v", p.what, p.path) }

func appendPath(p []any, x ...any) []any { return append(append([]any{}, p...), x...) }

// nested collects every mapping strictly below v (v itself included when self is set).
func nested(v *gt.Node, path []any, self bool, what string, out *[]pos) {
	switch v.Kind {
	case gt.Map:
		if self {
			*out = append(*out, pos{path: path, keys: append([]string{}, v.Keys...), what: what})
		}
		for i, k := range v.Keys {
			nested(v.Vals[i], appendPath(path, k), true, what, out)
		}
	case gt.Seq:
		for i, x := range v.Items {
			nested(x, appendPath(path, i), true, what, out)
		}
	}
}

var commandModelled = map[string]bool{"key": true, "id": true, "identifier": true, "label": true, "name": true, "command": true, "commands": true, "plugins": true, "env": true, "signature": true, "matrix": true, "cache": true}
var groupModelled = map[string]bool{"key": true, "id": true, "identifier": true, "group": true, "label": true, "name": true, "steps": true}

// positions lists the order-significant mappings the statement names.
func positions(meaning *gt.Node, canonSrc func(string) (string, bool)) (out []pos, pluginOrders []pos, excluded string) {
	var stepsNode *gt.Node
	base := []any{}
	switch meaning.Kind {
	case gt.Seq:
		stepsNode = meaning
	case gt.Map:
		for i, k := range meaning.Keys {
			v := meaning.Vals[i]
			switch k {
			case "steps":
				stepsNode = v
			case "env":
				if v.Kind == gt.Map && len(v.Keys) > 0 {
					out = append(out, pos{path: []any{"env"}, keys: append([]string{}, v.Keys...), what: "pipeline env block"})
				}
			default:
				nested(v, appendPath(base, k), true, "mapping nested in a top-level unknown field", &out)
			}
		}
	}
	var walkSteps func(sv *gt.Node, path []any)
	walkSteps = func(sv *gt.Node, path []any) {
		if sv == nil || sv.Kind != gt.Seq {
			return
		}
		for i, s := range sv.Items {
			sp := appendPath(path, i)
			if s.Kind != gt.Map {
				continue
			}
			kind, _ := doc.KindOfStep(s)
			switch kind {
			case doc.KUnknown:
				nested(s, sp, true, "unknown step", &out)
			case doc.KWait, doc.KInput, doc.KTrigger:
				nested(s, sp, false, "mapping nested in wait/input/trigger contents", &out)
			case doc.KCommand:
				if _, hasBoth := s.Get("commands"); hasBoth && s.Has("command") {
					if c, _ := s.Get("command"); c.Kind == gt.Seq {
						excluded = "command+commands with a list-valued command"
					}
				}
				for j, k := range s.Keys {
					v := s.Vals[j]
					if k == "plugins" && v.Kind == gt.Map && len(v.Keys) > 0 {
						var want []string
						for _, src := range v.Keys {
							c, ok := canonSrc(src)
							if !ok {
								excluded = "plugin source outside the documented forms"
							}
							want = append(want, c)
						}
						pluginOrders = append(pluginOrders, pos{path: appendPath(sp, "plugins"), keys: want, what: "plugins written as one mapping"})
					}
					if !commandModelled[k] {
						nested(v, appendPath(sp, k), true, "mapping nested in an unknown field of a command step", &out)
					}
				}
			case doc.KGroup:
				for j, k := range s.Keys {
					if k == "steps" {
						walkSteps(s.Vals[j], appendPath(sp, "steps"))
					} else if !groupModelled[k] {
						nested(s.Vals[j], appendPath(sp, k), true, "mapping nested in an unknown field of a group step", &out)
					}
				}
			}
		}
	}
	walkSteps(stepsNode, []any{"steps"})
	return out, pluginOrders, excluded
}

func lookup(n *gt.Node, path []any) *gt.Node {
	for _, p := range path {
		if n == nil {
			return nil
		}
		switch x := p.(type) {
		case string:
			v, ok := n.Get(x)
			if !ok {
				return nil
			}
			n = v
		case int:
			if n.Kind != gt.Seq || x >= len(n.Items) {
				return nil
			}
			n = n.Items[x]
		}
	}
	return n
}

func sameSeq(a, b []string) bool {
	if len(a) != len(b) {
		return false
	}
	for i := range a {
		if a[i] != b[i] {
			return false
		}
	}
	return true
}

func checkOutput(format string, out *gt.Node, ps, pls []pos) error {
	for _, p := range ps {
		got := lookup(out, p.path)
		if got == nil || got.Kind != gt.Map {
			return fmt.Errorf("[%s] %s: not found / not a mapping in the output (%s)", format, p, gt.Show(got))
		}
		if !sameSeq(got.Keys, p.keys) {
			return fmt.Errorf("[%s] %s: key order in the output %q, in the document %q", format, p, got.Keys, p.keys)
		}
	}
	for _, p := range pls {
		got := lookup(out, p.path)
		if got == nil || got.Kind != gt.Seq {
			return fmt.Errorf("[%s] %s: plugins not found / not a list in the output (%s)", format, p, gt.Show(got))
		}
		var keys []string
		for _, it := range got.Items {
			if it.Kind != gt.Map || len(it.Keys) != 1 {
				return fmt.Errorf("[%s] %s: plugin item is not a single-entry object: %s", format, p, gt.Show(it))
			}
			keys = append(keys, it.Keys[0])
		}
		if !sameSeq(keys, p.keys) {
			return fmt.Errorf("[%s] %s: plugin order in the output %q, mapping order in the document %q", format, p, keys, p.keys)
		}
	}
	return nil
}

var recDoc = ev.New("TestPropDocumentOrder", "grammar-generated pipeline documents biased to mappings of 9-24 keys (keys from S incl. quoted numeric / boolean look-alikes, unquoted ints and bools, the empty key, keys needing quotes), partly supplied through << merges at a chosen position, YAML and JSON input; at every position the statement names (pipeline env block, plugins written as one mapping, mappings nested in unknown fields, in unknown steps and in wait/input/trigger contents) the key sequence read from the token stream of json.Marshal(p) and from the node tree of yaml.Marshal(p) must equal the reference resolver's; non-trivial = a checked mapping with > 8 keys not already in sorted order; distinct by hash of the YAML text")

func TestPropDocumentOrder(t *testing.T) {
	ev.Check(t, 1000, 12000, func(t *rapid.T) {
		g := doc.NewG(t, doc.Config{Anchors: rapid.IntRange(0, 2).Draw(t, "anchors") > 0, Timestamps: true, BigNums: true, Floats: true,
			BigMaps: true, BigMapOneIn: 3, EmptyKey: true, MergeKeyStr: true, UnknownSteps: true, BothCommands: true})
		root := g.Pipeline()
		d, err := doc.Render(root, 2, 20000)
		if err != nil {
			if errors.Is(err, doc.ErrRenderFault) {
				recDoc.Excluded("render-fault")
			} else {
				recDoc.Excluded("outside-model")
			}
			return
		}
		run := func(leg string, text []byte, meaning *gt.Node) (bool, bool) {
			ps, pls, excl := positions(meaning, g.CanonSource)
			if excl != "" {
				recDoc.Excluded("excluded: " + excl)
				return false, false
			}
			p, perr := pipeline.Parse(bytes.NewReader(text))
			if p == nil {
				t.Fatalf("[%s input] Parse failed: %v\n%s", leg, perr, text)
			}
			jb, err := json.Marshal(p)
			if err != nil {
				t.Fatalf("[%s input] json.Marshal: %v", leg, err)
			}
			jn, err := gt.FromJSON(jb)
			if err != nil {
				t.Fatalf("[%s input] JSON output unreadable: %v", leg, err)
			}
			if err := checkOutput("JSON", jn, ps, pls); err != nil {
				t.Fatalf("[%s input] %v\n---- document ----\n%s\n---- json ----\n%s", leg, err, text, jb)
			}
			// the carve-out applies to input strings and to strings derived by the parse (a command
			// joined from a list whose first item is empty begins with a newline)
			unsafe := func(s string) bool { return !strs.YAMLLegOK(s) }
			yamlOK := !doc.HasString(meaning, unsafe) && !doc.HasString(canon.Pipeline(p, canon.Raw), unsafe)
			if !yamlOK {
				recDoc.Excluded("yaml-output-leg: multi-line string beginning with white space")
			}
			if ev.Known("F9") && doc.HasKey(meaning, func(k string) bool { return k == "<<" }) {
				yamlOK = false
				recDoc.Excluded("yaml-output-leg: mapping key << (known finding F9)")
			}
			if yamlOK {
				yb, err := yaml.Marshal(p)
				if err != nil {
					t.Fatalf("[%s input] yaml.Marshal: %v", leg, err)
				}
				yn, err := gt.FromYAML(yb)
				if err != nil {
					t.Fatalf("[%s input] YAML output unreadable: %v\n%s", leg, err, yb)
				}
				if err := checkOutput("YAML", yn, ps, pls); err != nil {
					t.Fatalf("[%s input] %v\n---- document ----\n%s\n---- yaml ----\n%s", leg, err, text, yb)
				}
			}
			big := false
			for _, p := range append(ps, pls...) {
				if len(p.keys) > 8 && !sort.StringsAreSorted(p.keys) {
					big = true
				}
			}
			return true, big
		}
		ok, nt := run("YAML", d.YAML, d.Meaning)
		if !ok {
			return
		}
		if jt, jm, err := d.JSON(); err == nil {
			_, nt2 := run("JSON", jt, jm)
			nt = nt || nt2
		}
		cls := []string{}
		if g.Feat["merge"] > 0 {
			cls = append(cls, "has-merge")
		}
		if g.Feat["plugins-legacy-map"] > 0 {
			cls = append(cls, "legacy-plugins-map")
		}
		if g.Feat["unknown-step"] > 0 {
			cls = append(cls, "unknown-step")
		}
		if nt {
			cls = append(cls, "big-unsorted-map")
		}
		recDoc.Case(ev.HashBytes(d.YAML), nt, cls...)
		recDoc.MaybeSample(nt, func() any { return string(d.YAML[:min(len(d.YAML), 1200)]) })
	})
}

// ---------------------------------------------------------------------------
// (b) programmatically built ordered maps survive encode -> decode

// genMap builds an ordered map through a generated history of Set / Delete / Replace calls and,
// next to it, the reference model of that history (a list of pairs kept by the documented rules:
// Set appends or updates in place, Delete removes, Replace renames in place - or appends when the
// old key is absent - and drops any other item of the new name). The expected tree comes from the
// model, never from the map's own iteration.
func genMap(t *rapid.T, depth int, yamlSafe bool, noMergeKey bool) (*ordered.MapSA, *gt.Node) {
	n := rapid.IntRange(0, 6).Draw(t, "n")
	if depth == 0 && rapid.IntRange(0, 2).Draw(t, "big") == 0 {
		n = rapid.IntRange(9, 40).Draw(t, "nbig")
	}
	m := ordered.NewMap[string, any](rapid.IntRange(0, 4).Draw(t, "cap"))
	type pair struct {
		k string
		v *gt.Node
	}
	var model []pair
	find := func(k string) int {
		for i, p := range model {
			if p.k == k {
				return i
			}
		}
		return -1
	}
	set := func(k string, v any, vn *gt.Node) {
		m.Set(k, v)
		if i := find(k); i >= 0 {
			model[i].v = vn
		} else {
			model = append(model, pair{k, vn})
		}
	}
	del := func(k string) {
		m.Delete(k)
		if i := find(k); i >= 0 {
			model = append(model[:i:i], model[i+1:]...)
		}
	}
	replace := func(old, nw string, v any, vn *gt.Node) {
		m.Replace(old, nw, v)
		if old != nw {
			if j := find(nw); j >= 0 {
				model = append(model[:j:j], model[j+1:]...)
			}
		}
		if i := find(old); i >= 0 {
			model[i] = pair{nw, vn}
		} else {
			model = append(model, pair{nw, vn})
		}
	}
	str := func(label string) string {
		for {
			s := strs.S().Draw(t, label)
			if yamlSafe && !strs.YAMLLegOK(s) {
				continue
			}
			return s
		}
	}
	key := func(label string) (string, bool) {
		k := str(label)
		if noMergeKey && k == "<<" || len(k) > doc.MaxKeyLen {
			return "", false
		}
		return k, true
	}
	var val func(d int) (any, *gt.Node)
	val = func(d int) (any, *gt.Node) {
		switch k := rapid.IntRange(0, 9).Draw(t, "vk"); {
		case k < 3:
			s := str("v")
			return s, gt.StrN(s)
		case k == 3:
			v := rapid.SampledFrom([]int{0, 1, -7, 1 << 40, 9007199254740993}).Draw(t, "int")
			return v, gt.MustGo(v)
		case k == 4:
			v := rapid.SampledFrom([]float64{0.5, -1.25, 1e-7, 6.02e23, 1.5e300}).Draw(t, "float")
			return v, gt.MustGo(v)
		case k == 5:
			v := rapid.Bool().Draw(t, "bool")
			return v, gt.BoolN(v)
		case k == 6:
			return nil, gt.NullN()
		case k == 7 && d < 3:
			l := make([]any, 0)
			ln := gt.SeqN()
			for i, c := 0, rapid.IntRange(0, 3).Draw(t, "ln"); i < c; i++ {
				v, vn := val(d + 1)
				l = append(l, v)
				ln.Items = append(ln.Items, vn)
			}
			return l, ln
		case k >= 8 && d < 3:
			sub, subn := genMap(t, d+1, yamlSafe, noMergeKey)
			return sub, subn
		}
		s := str("v")
		return s, gt.StrN(s)
	}
	if rapid.IntRange(0, 3).Draw(t, "fromitems") == 0 {
		// built in one go from a list of items in which a key may occur more than once (defaults followed
		// by overrides): the first position and the last value are kept, as if set one after the other
		var items []ordered.TupleSA
		for i := 0; i < n; i++ {
			k, ok := key("k")
			if !ok {
				continue
			}
			if len(items) > 0 && rapid.IntRange(0, 3).Draw(t, "repeatkey") == 0 {
				k = items[rapid.IntRange(0, len(items)-1).Draw(t, "repeatwhich")].Key
				recMap.Class("from-items-with-repeated-key")
			}
			v, vn := val(depth)
			items = append(items, ordered.TupleSA{Key: k, Value: v})
			if i := find(k); i >= 0 {
				model[i].v = vn
			} else {
				model = append(model, pair{k, vn})
			}
		}
		m = ordered.MapFromItems(items...)
	} else {
		for i := 0; i < n; i++ {
			if k, ok := key("k"); ok {
				v, vn := val(depth)
				set(k, v, vn)
			}
		}
	}
	// a history on top: deletions below and across the compaction threshold, renames onto absent,
	// present, earlier and later keys, brand-new keys after deletions, updates of those new keys
	if rapid.IntRange(0, 1).Draw(t, "history") == 0 {
		existing := func(label string) (string, bool) {
			if len(model) == 0 {
				return "", false
			}
			return model[rapid.IntRange(0, len(model)-1).Draw(t, label)].k, true
		}
		var fresh []string
		for i, c := 0, rapid.IntRange(1, 8).Draw(t, "nops"); i < c; i++ {
			switch rapid.IntRange(0, 6).Draw(t, "op") {
			case 0, 1:
				if k, ok := existing("delk"); ok {
					del(k)
					recMap.Class("history:delete")
				}
			case 2:
				if old, ok := existing("old"); ok {
					if nw, ok := existing("onto"); ok {
						v, vn := val(depth)
						replace(old, nw, v, vn)
						recMap.Class("history:rename-onto-present")
					}
				}
			case 3:
				if nw, ok := key("newname"); ok {
					v, vn := val(depth)
					if old, ok2 := existing("old2"); ok2 && rapid.Bool().Draw(t, "oldpresent") {
						replace(old, nw, v, vn)
					} else {
						replace("absent\x00"+nw, nw, v, vn)
					}
					recMap.Class("history:rename")
				}
			case 4:
				if k, ok := key("freshk"); ok {
					v, vn := val(depth)
					set(k, v, vn)
					fresh = append(fresh, k)
					recMap.Class("history:set-new")
				}
			default:
				// update a key added by this history (or any key)
				k, ok := "", false
				if len(fresh) > 0 {
					k, ok = rapid.SampledFrom(fresh).Draw(t, "upfresh"), true
				} else {
					k, ok = existing("upk")
				}
				if ok {
					v, vn := val(depth)
					set(k, v, vn)
					recMap.Class("history:update")
				}
			}
		}
	}
	wantOf := func() *gt.Node {
		want := gt.MapN(true)
		for _, p := range model {
			want.Put(p.k, p.v)
		}
		return want
	}
	// the package's own map-to-map constructors are further ways of building a map in a program: the
	// result holds the same keys, values and order (the values go through an identity function)
	switch rapid.IntRange(0, 5).Draw(t, "derived") {
	case 0:
		m = ordered.TransformValues(m, func(v any) any { return v })
		recMap.Class("built-by:TransformValues")
	case 1:
		// (a nil value is not assertable to any type, by the language's rule: AssertValues documents
		// an error for it)
		for _, p := range model {
			if p.v.Kind == gt.Null {
				return m, wantOf()
			}
		}
		am, err := ordered.AssertValues[any](m)
		if err != nil {
			t.Fatalf("AssertValues[any]: %v", err)
		}
		m = am
		recMap.Class("built-by:AssertValues")
	}
	return m, wantOf()
}

func hasKeyDeep(m *ordered.MapSA, key string) bool {
	found := false
	var walk func(v any)
	walk = func(v any) {
		switch t := v.(type) {
		case *ordered.MapSA:
			t.Range(func(k string, x any) error {
				if k == key {
					found = true
				}
				walk(x)
				return nil
			})
		case []any:
			for _, x := range t {
				walk(x)
			}
		}
	}
	walk(m)
	return found
}

var recMap = ev.New("TestPropMapRoundTrip", "programmatically built *ordered.MapSA (0-40 keys from S, values: strings, ints, non-integral floats, bools, null, lists, nested ordered maps; sometimes carrying tombstones) encoded with json.Marshal / yaml.Marshal and decoded back into an ordered map: ordered.Equal and the harness's own ordered comparison must hold; non-trivial = > 8 keys not in sorted order at some level; distinct by hash of the JSON encoding")

func TestPropMapRoundTrip(t *testing.T) {
	ev.Check(t, 3000, 30000, func(t *rapid.T) {
		yamlLeg := rapid.Bool().Draw(t, "yamlleg")
		m, want := genMap(t, 0, yamlLeg, yamlLeg && ev.Known("F9"))
		if yamlLeg && ev.Known("F9") {
			recMap.Class("yaml-leg-without-merge-key")
		}
		// the map itself agrees with the model of its history before anything is encoded
		if d := gt.Diff(want, gt.MustGo(m), gt.Opt{}); d != "" {
			t.Fatalf("the map differs from the reference model of the calls that built it: %s", d)
		}
		for i, k := range want.Keys {
			if v, ok := m.Get(k); !ok {
				t.Fatalf("Get(%q) finds nothing although the model holds the key", k)
			} else if d := gt.Diff(want.Vals[i], gt.MustGo(v), gt.Opt{}); d != "" {
				t.Fatalf("Get(%q) differs from the model: %s", k, d)
			}
		}
		if m.Len() != len(want.Keys) {
			t.Fatalf("Len() = %d, the model holds %d keys", m.Len(), len(want.Keys))
		}
		var back *ordered.MapSA
		var enc []byte
		var err error
		if yamlLeg {
			enc, err = yaml.Marshal(m)
			if err != nil {
				t.Fatalf("yaml.Marshal: %v", err)
			}
			back = ordered.NewMap[string, any](0)
			if err := yaml.Unmarshal(enc, back); err != nil {
				t.Fatalf("yaml.Unmarshal of the marshalled map: %v\n%s", err, enc)
			}
		} else {
			enc, err = json.Marshal(m)
			if err != nil {
				t.Fatalf("json.Marshal: %v", err)
			}
			back = ordered.NewMap[string, any](0)
			if err := json.Unmarshal(enc, back); err != nil {
				t.Fatalf("json.Unmarshal of the marshalled map: %v\n%s", err, enc)
			}
		}
		got := gt.MustGo(back)
		if d := gt.Diff(want, got, gt.Opt{}); d != "" {
			t.Fatalf("map changed through encode/decode (%v leg): %s\n%s", map[bool]string{true: "YAML", false: "JSON"}[yamlLeg], d, enc)
		}
		if !ordered.Equal(m, back) || !ordered.Equal(back, m) {
			t.Fatalf("ordered.Equal(m, decode(encode(m))) = false although keys, values and order agree\n%s", enc)
		}
		nt := false
		gt.Walk(want, func(_ string, x *gt.Node) {
			if x.Kind == gt.Map && len(x.Keys) > 8 && !sort.StringsAreSorted(x.Keys) {
				nt = true
			}
		})
		recMap.Case(ev.HashBytes(enc), nt, "yaml="+fmt.Sprint(yamlLeg))
		recMap.MaybeSample(nt, func() any { return strings.ToValidUTF8(string(enc[:min(len(enc), 600)]), "?") })
	})
}

func TestKnownFindings(t *testing.T) {
	ev.SkipIfReplayingOther(t)
	if ev.Shard() == 0 {
		probe.F9("C08")
	}
}

var _ = hasKeyDeep

// ---------------------------------------------------------------------------
// A step that falls back to an unknown step AFTER some of its fields were already decoded keeps the
// document order of every mapping it holds - also of mappings inside lists inside plugin configs,
// which the decoder had already walked (and de-ordered a copy of) when the later field failed.

var recFallback = ev.New("TestPropFallbackKeepsOrder", "command-looking steps with well-formed plugins (configs holding mappings directly and inside lists, keys in a drawn, unsorted order), an unknown field with a nested mapping, and one ill-typed field (label / env / cache / matrix / signature) so that the step falls back to an unknown step; the contents of that unknown step, and the JSON and YAML marshalling of the pipeline, must carry every mapping in document order at every depth; non-trivial = a mapping of >= 3 keys inside a list inside a plugin config and the ill-typed field comes after `plugins` in decoding order; distinct by document text")

func TestPropFallbackKeepsOrder(t *testing.T) {
	pool := []string{"zulu", "mike", "alpha", "yankee", "bravo", "x-ray", "delta", "10", "9", "Zed", "_u"}
	ev.Check(t, 1500, 30000, func(t *rapid.T) {
		q := func(s string) string { b, _ := json.Marshal(s); return string(b) }
		obj := func(label string, n int, val func(i int) string) string {
			ks := rapid.Permutation(pool).Draw(t, label+"keys")[:n]
			parts := make([]string, n)
			for i, k := range ks {
				parts[i] = q(k) + ": " + val(i)
			}
			return "{" + strings.Join(parts, ", ") + "}"
		}
		leaf := func(int) string { return rapid.SampledFrom([]string{`1`, `"v"`, `true`, `null`}).Draw(t, "leaf") }
		deepList := 0
		cfg := func(label string) string {
			return obj(label, rapid.IntRange(1, 3).Draw(t, label+"n"), func(i int) string {
				switch rapid.IntRange(0, 2).Draw(t, label+"shape") {
				case 0:
					n := rapid.IntRange(2, 5).Draw(t, label+"ln")
					if n >= 3 {
						deepList++
					}
					return "[" + obj(label+"l", n, leaf) + ", " + obj(label+"l2", 2, leaf) + "]"
				case 1:
					return obj(label+"d", rapid.IntRange(2, 4).Draw(t, label+"dn"), leaf)
				default:
					return leaf(0)
				}
			})
		}
		bad := rapid.SampledFrom([]struct {
			text  string
			after bool
		}{{`"label": [1, 2]`, false}, {`"env": ["a", "b"]`, true}, {`"cache": 42`, true}, {`"matrix": 5`, true}, {`"signature": "x"`, true}, {`"env": "FOO=bar"`, true}}).Draw(t, "bad")
		fields := []string{
			`"command": "echo"`,
			`"plugins": [{"docker#v1": ` + cfg("p1") + `}, {"ecr#v2": ` + cfg("p2") + `}]`,
			`"agents": ` + obj("ag", rapid.IntRange(2, 4).Draw(t, "agn"), func(int) string { return obj("agd", 2, leaf) }),
			bad.text,
		}
		fields = rapid.Permutation(fields).Draw(t, "fieldorder")
		stepText := "{" + strings.Join(fields, ", ") + "}"
		text := `{"steps": [` + stepText + `]}`
		p, err := pipeline.Parse(strings.NewReader(text))
		if p == nil || len(p.Steps) != 1 {
			t.Fatalf("Parse: %v\n%s", err, text)
		}
		u, ok := p.Steps[0].(*pipeline.UnknownStep)
		if !ok {
			t.Fatalf("the step has an ill-typed field (%s) but parsed as %T\n%s", bad.text, p.Steps[0], text)
		}
		want, werr := gt.FromJSON([]byte(stepText))
		if werr != nil {
			t.Fatalf("harness: %v", werr)
		}
		if d := gt.Diff(want, canon.Value(u.Contents), gt.Opt{}); d != "" {
			t.Fatalf("the unknown step's contents differ from the step as written (order included): %s\n%s", d, text)
		}
		jb, err := json.Marshal(p)
		if err != nil {
			t.Fatalf("json.Marshal: %v", err)
		}
		got, _ := gt.FromJSON(jb)
		gs, _ := got.Get("steps")
		if gs == nil || len(gs.Items) != 1 {
			t.Fatalf("marshalled pipeline has no single step: %s", jb)
		}
		if d := gt.Diff(want, gs.Items[0], gt.Opt{}); d != "" {
			t.Fatalf("JSON marshalling of the fallback step differs from the step as written (order included): %s\n%s\n%s", d, jb, text)
		}
		yb, err := yaml.Marshal(p)
		if err != nil {
			t.Fatalf("yaml.Marshal: %v", err)
		}
		yn, yerr := gt.FromYAML(yb)
		if yerr != nil {
			t.Fatalf("marshalled YAML does not decode: %v\n%s", yerr, yb)
		}
		ys, _ := yn.Get("steps")
		if ys == nil || len(ys.Items) != 1 {
			t.Fatalf("marshalled YAML has no single step:\n%s", yb)
		}
		if d := gt.Diff(want, ys.Items[0], gt.Opt{}); d != "" {
			t.Fatalf("YAML marshalling of the fallback step differs from the step as written (order included): %s\n%s\n%s", d, yb, text)
		}
		nt := deepList > 0 && bad.after
		recFallback.Case(ev.HashStr(text), nt, "bad="+strings.SplitN(bad.text, ":", 2)[0])
		recFallback.MaybeSample(nt, func() any { return text })
	})
}
