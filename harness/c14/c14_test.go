// C14 - the canonical signing payload is deterministic, order-insensitive and injective.
package c14

import (
	"bytes"
	"context"
	"encoding/json"
	"fmt"
	"sort"
	"strings"
	"testing"

	pipeline "github.com/buildkite/go-pipeline"
	"github.com/buildkite/go-pipeline/ordered"
	"github.com/buildkite/go-pipeline/signature"
	"gopkg.in/yaml.v3"
	"pgregory.net/rapid"

	"verif/harness/internal/canon"
	"verif/harness/internal/ev"
	"verif/harness/internal/gt"
	"verif/harness/internal/keys"
	"verif/harness/internal/probe"
	"verif/harness/internal/sgen"
)

func TestMain(m *testing.M) { ev.Main(m) }

// tap captures the canonical payload handed to the Logger under WithDebugSigning.
type tap struct{ payloads [][]byte }

func (l *tap) Debug(f string, v ...any) {
	if strings.HasPrefix(f, "Signed Step") && len(v) > 0 {
		switch p := v[0].(type) {
		case []byte:
			l.payloads = append(l.payloads, append([]byte{}, p...))
		default:
			l.payloads = append(l.payloads, []byte(fmt.Sprintf("%s", p)))
		}
	}
}

type world struct {
	Step *pipeline.CommandStep
	Penv map[string]string
	Repo string
	// Canon: the canonical spelling of each plugin source, known by rule from the generator (never asked
	// of the library: the equivalence of the two spellings is what is being checked)
	Canon map[string]string `json:"-"`
	// Focus: a pipeline variable of which the step env holds a look-alike (same name in other letter
	// case): a different variable, so this one is signed - a change of it must show in the payload
	Focus string `json:"-"`
}

func (w world) sf() *signature.CommandStepWithInvariants {
	return &signature.CommandStepWithInvariants{CommandStep: *w.Step, RepositoryURL: w.Repo}
}

func (w world) show() string {
	j, _ := json.Marshal(map[string]any{"step": canon.Step(w.Step, canon.Raw), "pipeline_env": w.Penv, "repo": w.Repo})
	return string(j)
}

func (w world) clone() world {
	return world{Step: sgen.CopyStep(w.Step), Penv: sgen.CopyStrMap(w.Penv), Repo: w.Repo, Canon: w.Canon, Focus: w.Focus}
}

func signTap(ctx context.Context, kp keys.Pair, w world) (*pipeline.Signature, []byte, error) {
	l := &tap{}
	sig, err := signature.Sign(ctx, kp.Priv, w.sf(), signature.WithEnv(w.Penv), signature.WithLogger(l), signature.WithDebugSigning(true))
	if err != nil {
		return nil, nil, err
	}
	if len(l.payloads) != 1 {
		return sig, nil, nil
	}
	return sig, l.payloads[0], nil
}

func verifyTap(ctx context.Context, kp keys.Pair, sig *pipeline.Signature, w world) ([]byte, error) {
	l := &tap{}
	err := signature.Verify(ctx, sig, kp.Pub, w.sf(), signature.WithEnv(w.Penv), signature.WithLogger(l), signature.WithDebugSigning(true))
	if len(l.payloads) != 1 {
		return nil, err
	}
	return l.payloads[0], err
}

// ---------------------------------------------------------------------------
// must-collide transformations: equivalent spellings of the same content

func rebuildStrMap(t *rapid.T, m map[string]string) map[string]string {
	if m == nil {
		return nil
	}
	ks := make([]string, 0, len(m))
	for k := range m {
		ks = append(ks, k)
	}
	sort.Strings(ks)
	if len(ks) > 1 {
		ks = rapid.Permutation(ks).Draw(t, "permkeys")
	}
	out := make(map[string]string, rapid.IntRange(0, 64).Draw(t, "cap"))
	for _, k := range ks {
		out[k] = m[k]
	}
	return out
}

func rebuildAny(t *rapid.T, v any) any {
	switch x := v.(type) {
	case map[string]any:
		ks := make([]string, 0, len(x))
		for k := range x {
			ks = append(ks, k)
		}
		sort.Strings(ks)
		if len(ks) > 1 {
			ks = rapid.Permutation(ks).Draw(t, "permkeys")
		}
		out := make(map[string]any, rapid.IntRange(0, 64).Draw(t, "cap"))
		for _, k := range ks {
			out[k] = rebuildAny(t, x[k])
		}
		return out
	case []any:
		out := make([]any, len(x))
		for i := range x {
			out[i] = rebuildAny(t, x[i])
		}
		return out
	case *ordered.MapSA:
		// the same entries in the same order, reached through another editing history: a throw-away
		// entry set in between and removed again, an entry removed and set again at the end
		if x == nil {
			return x
		}
		out := ordered.NewMap[string, any](rapid.IntRange(0, 8).Draw(t, "ocap"))
		junkAt := rapid.IntRange(0, x.Len()).Draw(t, "junkat")
		i := 0
		x.Range(func(k string, val any) error {
			if i == junkAt {
				out.Set("\x00throw-away", "gone")
			}
			out.Set(k, rebuildAny(t, val))
			i++
			return nil
		})
		if i == junkAt {
			out.Set("\x00throw-away", "gone")
		}
		out.Delete("\x00throw-away")
		return out
	}
	return v
}

func respell(t *rapid.T, w world) (world, []string) {
	b := w.clone()
	var how []string
	b.Step.Env = rebuildStrMap(t, b.Step.Env)
	b.Penv = rebuildStrMap(t, b.Penv)
	how = append(how, "maps-rebuilt")
	for _, p := range b.Step.Plugins {
		p.Config = rebuildAny(t, p.Config)
		if rapid.Bool().Draw(t, "canonspell") {
			if fs, known := w.Canon[p.Source]; known && fs != p.Source {
				p.Source = fs
				how = append(how, "plugin-source-canonical")
			}
		}
		switch c := p.Config.(type) {
		case nil:
			if rapid.Bool().Draw(t, "nil2empty") {
				p.Config = map[string]any{}
				how = append(how, "config-nil-to-empty")
			}
		case map[string]any:
			if len(c) == 0 && rapid.Bool().Draw(t, "empty2nil") {
				p.Config = nil
				how = append(how, "config-empty-to-nil")
			}
		}
	}
	if m := b.Step.Matrix; m != nil && len(m.RemainingFields) > 0 {
		m.RemainingFields = rebuildAny(t, m.RemainingFields).(map[string]any)
	}
	if len(b.Step.Env) == 0 && rapid.Bool().Draw(t, "envflip") {
		if b.Step.Env == nil {
			b.Step.Env = map[string]string{}
		} else {
			b.Step.Env = nil
		}
		how = append(how, "env-nil-empty")
	}
	if len(b.Step.Plugins) == 0 && rapid.Bool().Draw(t, "pluginsflip") {
		if b.Step.Plugins == nil {
			b.Step.Plugins = pipeline.Plugins{}
		} else {
			b.Step.Plugins = nil
		}
		how = append(how, "plugins-nil-empty")
	}
	if m := b.Step.Matrix; m == nil || (len(m.Setup) == 0 && len(m.Adjustments) == 0 && len(m.RemainingFields) == 0) {
		if rapid.Bool().Draw(t, "matrixflip") {
			if m == nil {
				b.Step.Matrix = &pipeline.Matrix{}
			} else {
				b.Step.Matrix = nil
			}
			how = append(how, "matrix-nil-empty")
		}
	} else {
		// nil versus empty INSIDE a matrix that is not empty as a whole
		if len(m.Adjustments) == 0 && rapid.Bool().Draw(t, "adjflip") {
			if m.Adjustments == nil {
				m.Adjustments = pipeline.MatrixAdjustments{}
			} else {
				m.Adjustments = nil
			}
			how = append(how, "inner:adjustments-nil-empty")
		}
		if len(m.RemainingFields) == 0 && rapid.Bool().Draw(t, "mremflip") {
			if m.RemainingFields == nil {
				m.RemainingFields = map[string]any{}
			} else {
				m.RemainingFields = nil
			}
			how = append(how, "inner:matrix-extras-nil-empty")
		}
		// setup / `with` / a dimension's value list: nil and empty sign differently (known finding F18);
		// while it is listed these three are left alone (counted), otherwise they must collide as well
		if ev.Known("F18") {
			if len(m.Setup) == 0 {
				rec.Excluded("nil vs empty matrix setup inside a non-empty matrix (known finding F18)")
			}
		} else {
			if len(m.Setup) == 0 && rapid.Bool().Draw(t, "setupflip") {
				if m.Setup == nil {
					m.Setup = pipeline.MatrixSetup{}
				} else {
					m.Setup = nil
				}
				how = append(how, "inner:setup-nil-empty")
			}
			for d, vals := range m.Setup {
				if len(vals) == 0 && rapid.Bool().Draw(t, "dimflip") {
					if vals == nil {
						m.Setup[d] = []string{}
					} else {
						m.Setup[d] = nil
					}
					how = append(how, "inner:dimension-values-nil-empty")
				}
			}
		}
		for _, a := range m.Adjustments {
			if !ev.Known("F18") && len(a.With) == 0 && rapid.Bool().Draw(t, "withflip") {
				if a.With == nil {
					a.With = pipeline.MatrixAdjustmentWith{}
				} else {
					a.With = nil
				}
				how = append(how, "inner:with-nil-empty")
			}
			if len(a.RemainingFields) == 0 && rapid.Bool().Draw(t, "aremflip") {
				if a.RemainingFields == nil {
					a.RemainingFields = map[string]any{}
				} else {
					a.RemainingFields = nil
				}
				how = append(how, "inner:adjustment-extras-nil-empty")
			}
			a.With = pipeline.MatrixAdjustmentWith(rebuildStrMap(t, a.With))
			switch s := a.Skip.(type) {
			case nil:
				if rapid.Bool().Draw(t, "skipfalse") {
					a.Skip = false
					how = append(how, "skip-absent-to-false")
				}
			case bool:
				if !s && rapid.Bool().Draw(t, "skipabsent") {
					a.Skip = nil
					how = append(how, "skip-false-to-absent")
				}
			}
			if a.RemainingFields != nil {
				a.RemainingFields = rebuildAny(t, a.RemainingFields).(map[string]any)
			}
		}
		if m.RemainingFields != nil {
			m.RemainingFields = rebuildAny(t, m.RemainingFields).(map[string]any)
		}
	}
	// unsigned content may change freely
	if rapid.Bool().Draw(t, "touchunsigned") {
		b.Step.Label += " (renamed)"
		b.Step.Key += "2"
		b.Step.RemainingFields = map[string]any{"agents": "x"}
		how = append(how, "unsigned-fields-changed")
	}
	return b, how
}

// ---------------------------------------------------------------------------
// must-differ transformations

type differ struct {
	name string
	f    func(t *rapid.T, w *world) bool
}

func sortedEnvKeys(m map[string]string) []string {
	ks := make([]string, 0, len(m))
	for k := range m {
		ks = append(ks, k)
	}
	sort.Strings(ks)
	return ks
}

func anyKey(m map[string]string) (string, bool) {
	ks := make([]string, 0, len(m))
	for k := range m {
		ks = append(ks, k)
	}
	sort.Strings(ks)
	if len(ks) == 0 {
		return "", false
	}
	return ks[0], true
}

var differs = []differ{
	{"penv-name-into-the-env-namespace", func(t *rapid.T, w *world) bool {
		// the pipeline variable X versus the pipeline variable literally named "env::X": two different
		// environments, although the second name is the text of the first one's field name
		for _, k := range sortedEnvKeys(w.Penv) {
			if _, shadowed := w.Step.Env[k]; shadowed {
				continue
			}
			if _, clash := w.Penv["env::"+k]; clash {
				continue
			}
			w.Penv["env::"+k] = w.Penv[k]
			delete(w.Penv, k)
			return true
		}
		return false
	}},
	{"command-line-ending", func(t *rapid.T, w *world) bool {
		switch c := w.Step.Command; {
		case strings.Contains(c, "\r\n"):
			w.Step.Command = strings.Replace(c, "\r\n", "\n", 1)
		case strings.Contains(c, "\n"):
			w.Step.Command = strings.Replace(c, "\n", "\r\n", 1)
		default:
			return false
		}
		return true
	}},
	// boundary shifts: plain concatenation of the signed values would hide these
	{"shift-command-to-repo", func(t *rapid.T, w *world) bool {
		r := []rune(w.Step.Command)
		if len(r) == 0 {
			return false
		}
		w.Step.Command = string(r[:len(r)-1])
		w.Repo = string(r[len(r)-1:]) + w.Repo
		return true
	}},
	{"shift-repo-to-command", func(t *rapid.T, w *world) bool {
		r := []rune(w.Repo)
		if len(r) == 0 {
			return false
		}
		w.Repo = string(r[1:])
		w.Step.Command += string(r[:1])
		return true
	}},
	{"shift-env-key-to-value", func(t *rapid.T, w *world) bool {
		k, ok := anyKey(w.Step.Env)
		if !ok || len([]rune(k)) < 2 {
			return false
		}
		r := []rune(k)
		nk := string(r[:len(r)-1])
		if _, clash := w.Step.Env[nk]; clash {
			return false
		}
		v := w.Step.Env[k]
		delete(w.Step.Env, k)
		w.Step.Env[nk] = string(r[len(r)-1:]) + v
		return true
	}},
	{"shift-penv-value-to-key", func(t *rapid.T, w *world) bool {
		k, ok := anyKey(w.Penv)
		if !ok || len([]rune(w.Penv[k])) == 0 {
			return false
		}
		v := []rune(w.Penv[k])
		nk := k + string(v[:1])
		if _, clash := w.Penv[nk]; clash {
			return false
		}
		if _, clash := w.Step.Env[nk]; clash {
			return false
		}
		if _, shadowed := w.Step.Env[k]; shadowed {
			return false // a shadowed pipeline variable is not signed at all
		}
		delete(w.Penv, k)
		w.Penv[nk] = string(v[1:])
		return true
	}},
	{"shift-between-adjacent-env-entries", func(t *rapid.T, w *world) bool {
		if len(w.Step.Env) < 2 {
			return false
		}
		ks := make([]string, 0)
		for k := range w.Step.Env {
			ks = append(ks, k)
		}
		sort.Strings(ks)
		a, b := ks[0], ks[1]
		va := []rune(w.Step.Env[a])
		if len(va) == 0 {
			return false
		}
		nb := string(va[len(va)-1:]) + b
		if _, clash := w.Step.Env[nb]; clash {
			return false
		}
		w.Step.Env[a] = string(va[:len(va)-1])
		w.Step.Env[nb] = w.Step.Env[b]
		delete(w.Step.Env, b)
		return true
	}},
	{"move-entry-from-step-env-to-pipeline-env", func(t *rapid.T, w *world) bool {
		k, ok := anyKey(w.Step.Env)
		if !ok {
			return false
		}
		if _, clash := w.Penv[k]; clash {
			return false
		}
		if w.Penv == nil {
			w.Penv = map[string]string{}
		}
		w.Penv[k] = w.Step.Env[k]
		delete(w.Step.Env, k)
		return true
	}},
	{"move-entry-from-pipeline-env-to-step-env", func(t *rapid.T, w *world) bool {
		k, ok := anyKey(w.Penv)
		if !ok {
			return false
		}
		if _, clash := w.Step.Env[k]; clash {
			return false
		}
		if w.Step.Env == nil {
			w.Step.Env = map[string]string{}
		}
		w.Step.Env[k] = w.Penv[k]
		delete(w.Penv, k)
		return true
	}},
	{"shift-plugin-source-to-config-key", func(t *rapid.T, w *world) bool {
		for _, p := range w.Step.Plugins {
			cfg, ok := p.Config.(map[string]any)
			if !ok || len(cfg) != 1 {
				continue
			}
			for k, v := range cfg {
				old := p.FullSource()
				p.Source += "x"
				if p.FullSource() == old {
					return false
				}
				delete(cfg, k)
				cfg["x"+k] = v
				return true
			}
		}
		return false
	}},
	{"move-config-key-between-adjacent-plugins", func(t *rapid.T, w *world) bool {
		for i := 0; i+1 < len(w.Step.Plugins); i++ {
			a, ok1 := w.Step.Plugins[i].Config.(map[string]any)
			if !ok1 || len(a) < 2 { // keep a non-empty so it does not collapse to null
				continue
			}
			b, ok2 := w.Step.Plugins[i+1].Config.(map[string]any)
			if w.Step.Plugins[i+1].Config == nil {
				b = map[string]any{}
				w.Step.Plugins[i+1].Config = b
				ok2 = true
			}
			if !ok2 {
				continue
			}
			ks := make([]string, 0)
			for k := range a {
				ks = append(ks, k)
			}
			sort.Strings(ks)
			k := ks[0]
			if _, clash := b[k]; clash {
				continue
			}
			b[k] = a[k]
			delete(a, k)
			return true
		}
		return false
	}},
	{"shift-dimension-name-to-value", func(t *rapid.T, w *world) bool {
		m := w.Step.Matrix
		if m == nil || len(m.Adjustments) > 0 {
			return false
		}
		for d, vs := range m.Setup {
			if len([]rune(d)) < 2 || len(vs) == 0 {
				continue
			}
			r := []rune(d)
			nd := string(r[:len(r)-1])
			if _, clash := m.Setup[nd]; clash {
				continue
			}
			nv := append([]string{}, vs...)
			nv[0] = string(r[len(r)-1:]) + nv[0]
			delete(m.Setup, d)
			m.Setup[nd] = nv
			return true
		}
		return false
	}},
	{"move-value-between-dimensions", func(t *rapid.T, w *world) bool {
		m := w.Step.Matrix
		if m == nil || len(m.Setup) < 2 {
			return false
		}
		ds := make([]string, 0)
		for d := range m.Setup {
			ds = append(ds, d)
		}
		sort.Strings(ds)
		if len(m.Setup[ds[0]]) == 0 {
			return false
		}
		a := m.Setup[ds[0]]
		m.Setup[ds[1]] = append([]string{a[len(a)-1]}, m.Setup[ds[1]]...)
		m.Setup[ds[0]] = a[:len(a)-1]
		return true
	}},
	{"matrix-named-dimension-gains-a-value", func(t *rapid.T, w *world) bool {
		m := w.Step.Matrix
		if m == nil {
			return false
		}
		var ds []string
		for d := range m.Setup {
			if d != "" {
				ds = append(ds, d)
			}
		}
		if len(ds) == 0 {
			return false
		}
		sort.Strings(ds)
		d := rapid.SampledFrom(ds).Draw(t, "gainsdim")
		m.Setup[d] = append(append([]string{}, m.Setup[d]...), "one more")
		return true
	}},
	{"matrix-dimension-removed", func(t *rapid.T, w *world) bool {
		m := w.Step.Matrix
		if m == nil || len(m.Setup) < 2 {
			return false
		}
		var ds []string
		for d := range m.Setup {
			ds = append(ds, d)
		}
		sort.Strings(ds)
		delete(m.Setup, rapid.SampledFrom(ds).Draw(t, "removeddim"))
		return true
	}},
	{"plugin-name-gains-the-suffix-canonicalisation-appends", func(t *rapid.T, w *world) bool {
		// "foo#v1" and "foo-buildkite-plugin#v1" are different plugins by the documented rule
		for _, p := range w.Step.Plugins {
			fs := p.FullSource()
			if fs == p.Source || !strings.HasPrefix(fs, "github.com/") {
				continue // not a short form
			}
			name, ref, _ := strings.Cut(p.Source, "#")
			np := name + "-buildkite-plugin"
			if ref != "" || strings.Contains(p.Source, "#") {
				np += "#" + ref
			}
			p.Source = np
			return true
		}
		return false
	}},
	{"plugin-config-falsy-scalar-vs-null", func(t *rapid.T, w *world) bool {
		// null / {} (no config) versus false, 0 or "" as the whole config: different content
		for _, p := range w.Step.Plugins {
			switch c := p.Config.(type) {
			case nil:
				p.Config = rapid.SampledFrom([]any{false, 0, ""}).Draw(t, "falsy")
				return true
			case map[string]any:
				if len(c) == 0 {
					p.Config = rapid.SampledFrom([]any{false, 0, ""}).Draw(t, "falsy")
					return true
				}
			case bool:
				if !c {
					p.Config = rapid.SampledFrom([]any{nil, 0, ""}).Draw(t, "falsy2")
					return true
				}
			case string:
				if c == "" {
					p.Config = rapid.SampledFrom([]any{nil, 0, false}).Draw(t, "falsy3")
					return true
				}
			}
		}
		return false
	}},
	// single-point content changes
	{"command-change", func(t *rapid.T, w *world) bool { w.Step.Command += "!"; return true }},
	{"repo-change", func(t *rapid.T, w *world) bool { w.Repo += "!"; return true }},
	{"repo-spelling-change", func(t *rapid.T, w *world) bool {
		// two spellings that usually reach the same repository are still two URLs: the `.git` suffix, a
		// trailing slash, the letter case of the host part
		switch rapid.IntRange(0, 2).Draw(t, "repospelling") {
		case 0:
			if strings.HasSuffix(w.Repo, ".git") {
				w.Repo = strings.TrimSuffix(w.Repo, ".git")
			} else {
				w.Repo += ".git"
			}
		case 1:
			if strings.HasSuffix(w.Repo, "/") {
				w.Repo = strings.TrimSuffix(w.Repo, "/")
			} else {
				w.Repo += "/"
			}
		default:
			up := strings.ToUpper(w.Repo)
			if up == w.Repo {
				up = strings.ToLower(w.Repo)
			}
			if up == w.Repo {
				return false
			}
			w.Repo = up
		}
		return true
	}},
	{"step-env-value-change", func(t *rapid.T, w *world) bool {
		k, ok := anyKey(w.Step.Env)
		if !ok {
			return false
		}
		w.Step.Env[k] += "!"
		return true
	}},
	{"pipeline-env-value-change", func(t *rapid.T, w *world) bool {
		k, ok := anyKey(w.Penv)
		if !ok {
			return false
		}
		if _, has := w.Penv[w.Focus]; has && w.Focus != "" {
			k = w.Focus
		}
		if _, shadowed := w.Step.Env[k]; shadowed {
			return false
		}
		w.Penv[k] += "!"
		return true
	}},
	{"nested-config-value-change", func(t *rapid.T, w *world) bool {
		for _, p := range w.Step.Plugins {
			if cfg, ok := p.Config.(map[string]any); ok && len(cfg) > 0 {
				ks := make([]string, 0)
				for k := range cfg {
					ks = append(ks, k)
				}
				sort.Strings(ks)
				switch inner := cfg[ks[0]].(type) {
				case map[string]any:
					inner["☠"] = 1
				case []any:
					cfg[ks[0]] = append(inner, "☠")
				default:
					cfg[ks[0]] = "☠"
				}
				return true
			}
		}
		return false
	}},
	{"plugins-swapped", func(t *rapid.T, w *world) bool {
		if len(w.Step.Plugins) < 2 {
			return false
		}
		a, b := w.Step.Plugins[0], w.Step.Plugins[1]
		if a.FullSource() == b.FullSource() {
			return false
		}
		w.Step.Plugins[0], w.Step.Plugins[1] = b, a
		return true
	}},
	{"matrix-adjustment-value-change", func(t *rapid.T, w *world) bool {
		m := w.Step.Matrix
		if m == nil || len(m.Adjustments) == 0 || len(m.Adjustments[0].With) == 0 {
			return false
		}
		ks := make([]string, 0)
		for k := range m.Adjustments[0].With {
			ks = append(ks, k)
		}
		sort.Strings(ks)
		m.Adjustments[0].With[rapid.SampledFrom(ks).Draw(t, "withkey")] += "!"
		return true
	}},
	{"ordered-map-entry-removed-inside-signed-content", func(t *rapid.T, w *world) bool {
		var om *ordered.MapSA
		if len(w.Step.Plugins) > 0 {
			if cfg, ok := w.Step.Plugins[0].Config.(map[string]any); ok {
				om, _ = cfg["ordered"].(*ordered.MapSA)
			}
		}
		if om == nil && w.Step.Matrix != nil {
			om, _ = w.Step.Matrix.RemainingFields["ordered"].(*ordered.MapSA)
		}
		if om == nil || om.Len() < 4 {
			return false
		}
		om.Delete(fmt.Sprintf("ok%d", rapid.IntRange(0, om.Len()-1).Draw(t, "omdel")))
		return true
	}},
	{"matrix-extra-key-change", func(t *rapid.T, w *world) bool {
		// a key of the matrix itself, next to setup / adjustments or next to a plain value list
		m := w.Step.Matrix
		if m == nil {
			return false
		}
		if _, has := m.RemainingFields["extra"]; has && rapid.Bool().Draw(t, "dropextra") {
			delete(m.RemainingFields, "extra")
			if len(m.RemainingFields) == 0 && rapid.Bool().Draw(t, "niltoo") {
				m.RemainingFields = nil
			}
			return true
		}
		if m.RemainingFields == nil {
			m.RemainingFields = map[string]any{}
		}
		m.RemainingFields["extra"] = "changed\x00"
		return true
	}},
	{"adjustment-extra-key-change", func(t *rapid.T, w *world) bool {
		m := w.Step.Matrix
		if m == nil || len(m.Adjustments) == 0 {
			return false
		}
		a := m.Adjustments[rapid.IntRange(0, len(m.Adjustments)-1).Draw(t, "whichadj")]
		if a.RemainingFields == nil {
			a.RemainingFields = map[string]any{}
		}
		a.RemainingFields["soft_fail"] = "changed\x00"
		return true
	}},
	{"int-to-string-in-config", func(t *rapid.T, w *world) bool {
		// 1 and "1" are different content
		for _, p := range w.Step.Plugins {
			if cfg, ok := p.Config.(map[string]any); ok {
				for k, v := range cfg {
					if n, isInt := v.(int); isInt {
						cfg[k] = fmt.Sprint(n)
						return true
					}
				}
			}
		}
		return false
	}},
}

var rec = ev.New("TestPropPayload", "pairs (A,B) of (step, pipeline env, repository URL) x key kind: must-collide pairs (B = A with maps rebuilt in another insertion order/capacity, nil<->empty containers, plugin sources short<->canonical, config {}<->nil, skip false<->absent, unsigned fields changed) and must-differ pairs (characters shifted across the boundary of adjacent signed fields / key and value / step env and pipeline env, plus single-point content changes); payload bytes observed through the Logger under WithDebugSigning for Sign and Verify and, for EdDSA, through the deterministic signature value; 5 repetitions must be byte-identical; non-trivial = the difference/equivalence lies inside a nested plugin config, a matrix, or across the step-env/pipeline-env boundary; distinct by hash of (A, transformation)")

func TestPropPayload(t *testing.T) {
	ctx := context.Background()
	pool := keys.Pool()
	ev.Check(t, 3000, 20000, func(t *rapid.T) {
		g := sgen.New(t, sgen.Opts{BigMaps: rapid.IntRange(0, 2).Draw(t, "big") == 0})
		step, canonOf := g.Step()
		a := world{Step: step, Penv: g.EnvMap("penv", 4), Repo: g.RepoURL(), Canon: canonOf}
		if rapid.IntRange(0, 3).Draw(t, "orderedinside") == 0 {
			om := ordered.NewMap[string, any](0)
			for i, c := 0, rapid.IntRange(4, 7).Draw(t, "omn"); i < c; i++ {
				om.Set(fmt.Sprintf("ok%d", i), g.Str("omv"))
			}
			placed := false
			if len(a.Step.Plugins) > 0 {
				if cfg, ok := a.Step.Plugins[0].Config.(map[string]any); ok && cfg != nil && rapid.Bool().Draw(t, "omincfg") {
					cfg["ordered"] = om
					placed = true
				}
			}
			if !placed {
				if a.Step.Matrix == nil {
					a.Step.Matrix = &pipeline.Matrix{Setup: pipeline.MatrixSetup{"": []string{"a", "b"}}}
				}
				if a.Step.Matrix.RemainingFields == nil {
					a.Step.Matrix.RemainingFields = map[string]any{}
				}
				a.Step.Matrix.RemainingFields["ordered"] = om
			}
			rec.Class("order-preserving-map-inside-signed-content")
		}
		if len(a.Penv) > 0 && rapid.IntRange(0, 5).Draw(t, "casetwin") == 0 {
			ks := make([]string, 0, len(a.Penv))
			for k := range a.Penv {
				ks = append(ks, k)
			}
			sort.Strings(ks)
			n := rapid.SampledFrom(ks).Draw(t, "twinof")
			twin := strings.ToLower(n)
			if twin == n {
				twin = strings.ToUpper(n)
			}
			_, inP := a.Penv[twin]
			_, inS := a.Step.Env[n]
			if twin != n && !inP && !inS {
				if a.Step.Env == nil {
					a.Step.Env = map[string]string{}
				}
				a.Step.Env[twin] = "the step's own " + twin
				a.Focus = n
				rec.Class("step-env-holds-a-case-twin-of-a-pipeline-variable")
			}
		}
		kp := pool[rapid.IntRange(0, 1).Draw(t, "fast")]
		if rapid.IntRange(0, 5).Draw(t, "anykey") == 0 {
			kp = rapid.SampledFrom(pool).Draw(t, "key")
		}
		sigA, payA, err := signTap(ctx, kp, a)
		if err != nil {
			t.Fatalf("Sign: %v\n%s", err, a.show())
		}
		tapOK := payA != nil
		if !tapOK && kp.Kind != "EdDSA" {
			rec.Excluded("payload tap unavailable and key is not deterministic")
			return
		}
		// determinism over repetitions (fresh clones, fresh map iteration orders)
		for i := 0; i < 4; i++ {
			s2, p2, err := signTap(ctx, kp, a.clone())
			if err != nil {
				t.Fatalf("Sign (repeat): %v", err)
			}
			if tapOK && !bytes.Equal(p2, payA) {
				t.Fatalf("payload differs between runs on the same content:\n%s\n%s\n%s", payA, p2, a.show())
			}
			if kp.Kind == "EdDSA" && s2.Value != sigA.Value {
				t.Fatalf("EdDSA signature differs between runs on the same content (payload not deterministic)\n%s", a.show())
			}
		}
		// Verify rebuilds the same payload
		if pv, err := verifyTap(ctx, kp, sigA, a.clone()); err != nil {
			t.Fatalf("own signature does not verify: %v\n%s", err, a.show())
		} else if tapOK && pv != nil && !bytes.Equal(pv, payA) {
			t.Fatalf("payload rebuilt by Verify differs from the one signed:\nsign:   %s\nverify: %s", payA, pv)
		}
		// payload is valid JSON naming the algorithm
		if tapOK {
			var obj map[string]any
			if err := json.Unmarshal(payA, &obj); err != nil {
				t.Fatalf("payload is not JSON: %v: %s", err, payA)
			}
		}

		collide := rapid.Bool().Draw(t, "collide")
		var b world
		var how string
		nt := false
		if collide {
			var hows []string
			b, hows = respell(t, a)
			how = "collide:" + strings.Join(hows, ",")
			for _, h := range hows {
				if strings.HasPrefix(h, "config-") || strings.HasPrefix(h, "skip-") || strings.HasPrefix(h, "matrix-") || h == "plugin-source-canonical" {
					nt = true
				}
			}
			for _, p := range a.Step.Plugins {
				if m, ok := p.Config.(map[string]any); ok && len(m) > 1 {
					nt = true // nested config rebuilt in another order
				}
			}
		} else {
			b = a.clone()
			order := rapid.Permutation(seq(len(differs))).Draw(t, "dorder")
			if a.Focus != "" && rapid.Bool().Draw(t, "focusfirst") {
				for j, i := range order {
					if differs[i].name == "pipeline-env-value-change" {
						order[0], order[j] = order[j], order[0]
					}
				}
			} else if a.Step.Matrix != nil && rapid.IntRange(0, 2).Draw(t, "matrixfirst") == 0 {
				// one step in three that has a matrix gets a difference inside the matrix (the catalogue is
				// long, and most of its entries apply to every step)
				var first, rest []int
				for _, i := range order {
					if strings.Contains(differs[i].name, "matrix") || strings.Contains(differs[i].name, "dimension") {
						first = append(first, i)
					} else {
						rest = append(rest, i)
					}
				}
				order = append(first, rest...)
			}
			applied := ""
			for _, i := range order {
				if differs[i].f(t, &b) {
					applied = differs[i].name
					break
				}
				b = a.clone()
			}
			if applied == "" {
				rec.Excluded("no applicable must-differ transformation")
				return
			}
			how = "differ:" + applied
			nt = strings.Contains(applied, "config") || strings.Contains(applied, "dimension") || strings.Contains(applied, "matrix") || strings.Contains(applied, "pipeline-env") || strings.Contains(applied, "penv")
		}
		sigB, payB, err := signTap(ctx, kp, b)
		if err != nil {
			t.Fatalf("Sign(B): %v\n%s", err, b.show())
		}
		_, verr := verifyTap(ctx, kp, sigA, b.clone())
		if collide {
			if tapOK && !bytes.Equal(payA, payB) {
				t.Fatalf("equivalent spellings give different payloads (%s):\nA: %s\nB: %s\nA=%s\nB=%s", how, payA, payB, a.show(), b.show())
			}
			if kp.Kind == "EdDSA" && sigA.Value != sigB.Value {
				t.Fatalf("equivalent spellings give different EdDSA signatures (%s)\nA=%s\nB=%s", how, a.show(), b.show())
			}
			if verr != nil {
				t.Fatalf("A's signature does not verify on its equivalent spelling B (%s): %v\nA=%s\nB=%s", how, verr, a.show(), b.show())
			}
			if fmt.Sprint(sigA.SignedFields) != fmt.Sprint(sigB.SignedFields) {
				t.Fatalf("equivalent spellings give different signed-field lists: %v vs %v", sigA.SignedFields, sigB.SignedFields)
			}
		} else {
			if tapOK && bytes.Equal(payA, payB) {
				t.Fatalf("different signed content gives the same payload (%s):\n%s\nA=%s\nB=%s", how, payA, a.show(), b.show())
			}
			if kp.Kind == "EdDSA" && sigA.Value == sigB.Value {
				t.Fatalf("different signed content gives the same EdDSA signature (%s)\nA=%s\nB=%s", how, a.show(), b.show())
			}
			if verr == nil {
				t.Fatalf("A's signature verifies on different content B (%s)\nA=%s\nB=%s", how, a.show(), b.show())
			}
		}
		rec.Case(ev.Hash(a.show(), how), nt, strings.SplitN(how, ",", 2)[0], "key="+kp.Kind)
		rec.MaybeSample(nt, func() any {
			return map[string]any{"relation": how, "A": json.RawMessage(a.show()), "payload": string(payA)}
		})
	})
}

func seq(n int) []int {
	s := make([]int, n)
	for i := range s {
		s[i] = i
	}
	return s
}

// Document key order: the same step written with its keys permuted at every
// level (and parsed) gives the same payload.
var recDoc = ev.New("TestPropDocumentKeyOrder", "a generated command step marshalled to YAML, its mapping keys permuted at every level, parsed again: payload and EdDSA signature must equal those of the original; non-trivial = step has a plugin config or matrix with >= 2 keys; distinct by hash of step")

func permuteYAML(t *rapid.T, n *yaml.Node) {
	if n.Kind == yaml.MappingNode && len(n.Content) >= 4 {
		idx := rapid.Permutation(seq(len(n.Content)/2)).Draw(t, "perm")
		var c []*yaml.Node
		for _, i := range idx {
			c = append(c, n.Content[2*i], n.Content[2*i+1])
		}
		n.Content = c
	}
	for _, c := range n.Content {
		permuteYAML(t, c)
	}
}

func TestPropDocumentKeyOrder(t *testing.T) {
	ctx := context.Background()
	kp := keys.Pool()[0]
	ev.Check(t, 800, 6000, func(t *rapid.T) {
		g := sgen.New(t, sgen.Opts{SimpleStrings: true, BigMaps: true})
		step, _ := g.Step()
		penv := g.EnvMap("penv", 3)
		yb, err := yaml.Marshal(&pipeline.Pipeline{Steps: pipeline.Steps{step}})
		if err != nil {
			t.Fatalf("yaml.Marshal: %v", err)
		}
		p1, err := pipeline.Parse(bytes.NewReader(yb))
		if err != nil || len(p1.Steps) != 1 {
			recDoc.Excluded("marshalled step does not re-parse cleanly (C09 decides that)")
			return
		}
		var node yaml.Node
		if err := yaml.Unmarshal(yb, &node); err != nil {
			t.Fatal(err)
		}
		permuteYAML(t, &node)
		yb2, err := yaml.Marshal(&node)
		if err != nil {
			t.Fatal(err)
		}
		p2, err := pipeline.Parse(bytes.NewReader(yb2))
		if err != nil || len(p2.Steps) != 1 {
			t.Fatalf("permuted document does not parse: %v\n%s", err, yb2)
		}
		s1, ok1 := p1.Steps[0].(*pipeline.CommandStep)
		s2, ok2 := p2.Steps[0].(*pipeline.CommandStep)
		if !ok1 || !ok2 {
			recDoc.Excluded("not a command step after parse")
			return
		}
		// mapping-form plugins are order-significant: a permuted `plugins` list is still a list, so fine
		w1 := world{Step: s1, Penv: penv, Repo: "r"}
		w2 := world{Step: s2, Penv: penv, Repo: "r"}
		sig1, pay1, err := signTap(ctx, kp, w1)
		if err != nil {
			t.Fatal(err)
		}
		sig2, pay2, err := signTap(ctx, kp, w2)
		if err != nil {
			t.Fatal(err)
		}
		if sig1.Value != sig2.Value || !bytes.Equal(pay1, pay2) {
			t.Fatalf("document key order changes the payload:\n%s\n%s\n---\n%s\n---\n%s", pay1, pay2, yb, yb2)
		}
		// and the step read back from its own document has the content - hence the payload - of the step
		// that was written (every plugin of the list, repeated ones included, every dimension, ...)
		sig0, pay0, err := signTap(ctx, kp, world{Step: step, Penv: penv, Repo: "r"})
		if err != nil {
			t.Fatal(err)
		}
		if sig0.Value != sig1.Value || !bytes.Equal(pay0, pay1) {
			t.Fatalf("the step parsed from its own document signs differently from the step that was written:\nwritten: %s\nparsed:  %s\n---\n%s", pay0, pay1, yb)
		}
		nt := false
		for _, p := range s1.Plugins {
			if m, ok := p.Config.(map[string]any); ok && len(m) >= 2 {
				nt = true
			}
		}
		if s1.Matrix != nil && len(s1.Matrix.Setup) >= 2 {
			nt = true
		}
		recDoc.Case(ev.HashBytes(yb), nt)
		recDoc.MaybeSample(nt, func() any { return map[string]any{"original": string(yb), "permuted": string(yb2)} })
		_ = gt.Show
	})
}

// ---------------------------------------------------------------------------
// SignSteps: the payload of a step inside a list is the payload of that step alone

var recSS = ev.New("TestPropSignStepsPayload", "lists of 1-8 generated command steps (some nested in groups, wait/input steps in between) signed with SignSteps under one pipeline env whose keys are overridden by a drawn subset of the steps: the payload logged for the i-th command step (and, for EdDSA, the signature value; for every key the signed-field list) must equal what Sign produces for a fresh copy of that step alone with a fresh copy of the env - the payload depends on (step, pipeline env, repository URL, algorithm) only, not on the steps signed before it; the env map handed in must be unchanged; non-trivial = a step that overrides a pipeline env key precedes a step that does not; distinct by hash of (steps, env)")

func TestPropSignStepsPayload(t *testing.T) {
	ctx := context.Background()
	pool := keys.Pool()
	ev.Check(t, 600, 6000, func(t *rapid.T) {
		g := sgen.New(t, sgen.Opts{BigMaps: rapid.IntRange(0, 5).Draw(t, "big") == 0})
		penv := g.EnvMap("penv", 4)
		if len(penv) == 0 {
			penv = map[string]string{g.EnvName("k0"): g.Str("v0")}
		}
		var pkeys []string
		for k := range penv {
			pkeys = append(pkeys, k)
		}
		sort.Strings(pkeys)
		repo := g.RepoURL()
		kp := pool[rapid.IntRange(0, 1).Draw(t, "fast")]
		if rapid.IntRange(0, 7).Draw(t, "anykey") == 0 {
			kp = rapid.SampledFrom(pool).Draw(t, "key")
		}
		n := rapid.IntRange(1, 8).Draw(t, "nsteps")
		var flat []*pipeline.CommandStep
		var overrides []bool
		for i := 0; i < n; i++ {
			s, _ := g.Step()
			ov := false
			if rapid.IntRange(0, 2).Draw(t, "override") == 0 {
				if s.Env == nil {
					s.Env = map[string]string{}
				}
				for j, m := 0, rapid.IntRange(1, 2).Draw(t, "noverride"); j < m; j++ {
					s.Env[rapid.SampledFrom(pkeys).Draw(t, "okey")] = g.Str("oval")
				}
				ov = true
			}
			for k := range s.Env {
				if _, ok := penv[k]; ok {
					ov = true
				}
			}
			flat = append(flat, s)
			overrides = append(overrides, ov)
		}
		// arrange into a list with groups and non-command steps in between
		var steps pipeline.Steps
		var cur *pipeline.GroupStep
		for _, s := range flat {
			switch rapid.IntRange(0, 5).Draw(t, "place") {
			case 0:
				cur = &pipeline.GroupStep{Group: new(string)}
				steps = append(steps, cur)
				cur.Steps = append(cur.Steps, s)
			case 1:
				if cur != nil {
					cur.Steps = append(cur.Steps, s)
				} else {
					steps = append(steps, s)
				}
			case 2:
				steps = append(steps, &pipeline.WaitStep{Scalar: "wait"}, s)
				cur = nil
			default:
				steps = append(steps, s)
				cur = nil
			}
		}
		// flat order as SignSteps walks it
		var order []*pipeline.CommandStep
		var walk func(pipeline.Steps)
		walk = func(ss pipeline.Steps) {
			for _, st := range ss {
				switch st := st.(type) {
				case *pipeline.CommandStep:
					order = append(order, st)
				case *pipeline.GroupStep:
					walk(st.Steps)
				}
			}
		}
		walk(steps)
		// expected: each step alone (fresh copies), BEFORE SignSteps attaches signatures
		type exp struct {
			pay    []byte
			sig    *pipeline.Signature
			before string
		}
		var want []exp
		for _, s := range order {
			w := world{Step: sgen.CopyStep(s), Penv: sgen.CopyStrMap(penv), Repo: repo}
			sig, pay, err := signTap(ctx, kp, w)
			if err != nil {
				t.Fatalf("Sign alone: %v\n%s", err, w.show())
			}
			want = append(want, exp{pay, sig, w.show()})
		}
		penvBefore := fmt.Sprint(penv)
		l := &tap{}
		if err := signature.SignSteps(ctx, steps, kp.Priv, repo, signature.WithEnv(penv), signature.WithLogger(l), signature.WithDebugSigning(true)); err != nil {
			t.Fatalf("SignSteps: %v", err)
		}
		if fmt.Sprint(penv) != penvBefore {
			t.Fatalf("SignSteps modified the pipeline env it was given: %s -> %s", penvBefore, fmt.Sprint(penv))
		}
		tapOK := len(l.payloads) == len(order)
		if !tapOK && len(l.payloads) != 0 {
			t.Fatalf("SignSteps logged %d payloads for %d command steps", len(l.payloads), len(order))
		}
		for i, s := range order {
			if s.Signature == nil {
				t.Fatalf("command step %d left unsigned by SignSteps", i)
			}
			if tapOK && want[i].pay != nil && !bytes.Equal(l.payloads[i], want[i].pay) {
				t.Fatalf("payload of command step %d of %d inside SignSteps differs from the payload of the same step signed alone:\nlist:  %s\nalone: %s\nstep: %s", i+1, len(order), l.payloads[i], want[i].pay, want[i].before)
			}
			if fmt.Sprint(s.Signature.SignedFields) != fmt.Sprint(want[i].sig.SignedFields) || s.Signature.Algorithm != want[i].sig.Algorithm {
				t.Fatalf("signed fields of command step %d of %d inside SignSteps differ from those of the same step signed alone: %v vs %v\nstep: %s", i+1, len(order), s.Signature.SignedFields, want[i].sig.SignedFields, want[i].before)
			}
			if kp.Kind == "EdDSA" && s.Signature.Value != want[i].sig.Value {
				t.Fatalf("EdDSA signature of command step %d of %d inside SignSteps differs from that of the same step signed alone\nstep: %s", i+1, len(order), want[i].before)
			}
			// and the signature made alone verifies the step signed in the list, and vice versa
			cp := sgen.CopyStep(s)
			if err := signature.Verify(ctx, want[i].sig, kp.Pub, &signature.CommandStepWithInvariants{CommandStep: *cp, RepositoryURL: repo}, signature.WithEnv(sgen.CopyStrMap(penv))); err != nil {
				t.Fatalf("signature made for the step alone does not verify the step as signed in the list: %v", err)
			}
		}
		nt := false
		seenOv := false
		for i := range order {
			ov := false
			for j, f := range flat {
				if f == order[i] {
					ov = overrides[j]
				}
			}
			if seenOv && !ov {
				nt = true
			}
			seenOv = seenOv || ov
		}
		h := ev.Hash(fmt.Sprint(penv), len(order))
		for _, w := range want {
			h = ev.Hash(h, w.before)
		}
		recSS.Case(h, nt, "key="+kp.Kind, fmt.Sprintf("steps=%d", min(len(order), 4)))
		recSS.MaybeSample(nt, func() any {
			return map[string]any{"steps": len(order), "pipeline_env": penv, "first_step": want[0].before, "key": kp.Kind}
		})
	})
}

func TestKnownFindings(t *testing.T) {
	ev.SkipIfReplayingOther(t)
	if ev.Shard() == 0 {
		probe.F18("C14")
	}
}
